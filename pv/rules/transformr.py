"""Transform / tree rules: R2 (partial map Graph.epidata), R3 (derived graph keeps its top), R4 (no
truthiness on constants), R11 (tree atoms compared modulo alignment), R30 (map shape), R31 (fresh
names), R33 (marker classification exhaustive), R38 (collapse guards), R48 (cache keys determine
cached values)."""
from __future__ import annotations

import ast
import re
from typing import Callable, Dict, List, Optional, Set, Tuple

from ..cfg import CFG, Node, assigned_names, cond_facts, def_value, facts_at, mutated_bases, owner_node, reaching_defs
from ..core import Ctx, RuleReport, rule
from ..src import AnalysisError, FuncInfo, norm, try_fold, walk_local
from ..tyeng import T, has, show
from .lexical import single_def

EPIDATUM = 'penman.epigraph:Epidatum'


def _epi_classes(ctx: Ctx) -> Set[str]:
    base = ctx.repo.cls('penman.epigraph', 'Epidatum')
    return {base.fq} | {c.fq for c in ctx.repo.subclasses(base)}


def is_epimap(ctx: Ctx, t: T) -> bool:
    epi = _epi_classes(ctx)
    for a in t:
        if a[0] == 'dict':
            for v in a[2]:
                if v[0] == 'list' and any(x[0] == 'inst' and x[1] in epi for x in v[1]):
                    return True
    return False


def _in_try_keyerror(pm, node) -> bool:
    n = node
    while id(n) in pm:
        par = pm[id(n)]
        if isinstance(par, ast.Try) and any(any(x is n for x in ast.walk(b)) for b in par.body):
            for h in par.handlers:
                t = norm(h.type) if h.type is not None else ''
                if t in ('', 'Exception', 'BaseException', 'LookupError') or 'KeyError' in t:
                    return True
        n = par
    return False


@rule('R2', 'Graph.epidata is a partial map: every keyed read/delete is guarded, total by construction, or uses .get')
def r2(ctx: Ctx) -> RuleReport:
    rep = RuleReport('R2', r2.title, floor=8)
    for fi in ctx.repo.all_functions():
        sites: List[Tuple[ast.AST, ast.AST, ast.AST, str]] = []    # (node, map expr, key expr, kind)
        total: List[Tuple[ast.AST, str]] = []
        for n in walk_local(fi.node):
            if isinstance(n, ast.Subscript) and isinstance(n.ctx, (ast.Load, ast.Del)) and not isinstance(n.slice, ast.Slice):
                if is_epimap(ctx, ctx.types.type_of(fi, n.value)):
                    sites.append((n, n.value, n.slice, 'del' if isinstance(n.ctx, ast.Del) else 'load'))
            elif isinstance(n, ast.Call) and isinstance(n.func, ast.Attribute):
                if n.func.attr in ('pop', 'get', 'items', 'values', 'keys', 'setdefault') \
                        and is_epimap(ctx, ctx.types.type_of(fi, n.func.value)):
                    if n.func.attr == 'pop' and len(n.args) == 1:
                        sites.append((n, n.func.value, n.args[0], 'pop'))
                    else:
                        total.append((n, n.func.attr))
        if not sites and not total:
            continue
        cfg = CFG(fi.node)
        IN = cond_facts(cfg)
        pm = ctx.repo.parent_map(fi.node)
        RD = None
        for n, attr in total:
            if attr == 'get' and len(n.args) == 1 and not n.keywords:
                # .get(key) without a default is None for a triple without markers: harmless only if the result is tested, not if it is walked
                par = pm.get(id(n))
                walked = (isinstance(par, (ast.For, ast.comprehension)) and par.iter is n) or \
                    (isinstance(par, ast.Call) and isinstance(par.func, ast.Name) and par.func.id in ('list', 'tuple', 'iter', 'len', 'enumerate', 'reversed', 'sorted') and n in par.args) or \
                    isinstance(par, ast.Subscript)
                if walked:
                    rep.violation(f'{fi.module.name}:{fi.qualname}: {norm(n)[:70]}', fi.loc(n), f'`{norm(n)}` is None for a triple that has no entry in epidata (any hand-built or edited graph), and the '
                                  f'result is iterated / indexed at once: TypeError instead of "no markers"')
                    continue
            rep.ok(f'{fi.module.name}:{fi.qualname}: {norm(n)[:70]}', fi.loc(n), f'total by construction (.{attr})')
        for n, m, k, kind in sites:
            key = f'{fi.module.name}:{fi.qualname}: {kind} {norm(m)}[{norm(k)}]'
            facts = facts_at(cfg, IN, pm, n)
            guard = (f'{norm(k)} in {norm(m)}', True) in facts or (f'{norm(k)} not in {norm(m)}', False) in facts
            if guard:
                rep.ok(key, fi.loc(n), f'guarded by `{norm(k)} in {norm(m)}`')
                continue
            if _in_try_keyerror(pm, n):
                rep.ok(key, fi.loc(n), 'inside try/except KeyError')
                continue
            # key bound by iterating the same map
            if isinstance(k, ast.Name):
                if RD is None:
                    RD = reaching_defs(cfg, fi.params)
                here = owner_node(cfg, pm, n)
                defs = RD.get(here, {}).get(k.id, frozenset())
                ok_iter = bool(defs)
                for d in defs:
                    nd = cfg.nodes[d]
                    if nd.kind == 'for':
                        it = nd.ast.iter
                        src = norm(it)
                        if src in (norm(m), f'{norm(m)}.keys()', f'list({norm(m)})') or \
                                (src == f'{norm(m)}.items()' and isinstance(nd.ast.target, ast.Tuple)
                                 and norm(nd.ast.target.elts[0]) == k.id):
                            continue
                    ok_iter = False
                if ok_iter:
                    rep.ok(key, fi.loc(n), 'key is bound by iterating the same map')
                    continue
            rep.violation(key, fi.loc(n),
                          f'{norm(m)} is a Graph.epidata map (optional, user supplied, {{}} by default): this {kind} raises '
                          f'KeyError for any triple without a marker entry, i.e. for every programmatically built graph')
    return rep


# ---------------------------------------------------------------------------------------------
def _graph_params(ctx: Ctx, fi: FuncInfo) -> List[str]:
    out = []
    for p in fi.positional:
        if 'penman.graph:Graph' in ctx.cg.class_of(ast.Name(id=p, ctx=ast.Load()), fi, fi.module):
            out.append(p)
    return out


@rule('R3', 'a graph derived from a graph argument is constructed with that argument\'s top')
def r3(ctx: Ctx) -> RuleReport:
    rep = RuleReport('R3', r3.title, floor=2)
    for fi in ctx.repo.all_functions():
        if fi.cls is not None and fi.cls.name == 'Graph':
            continue
        gps = _graph_params(ctx, fi)
        if not gps:
            continue
        for call, ts in ctx.cg.calls_in(fi):
            if not any(t.kind == 'class' and t.cls.fq == 'penman.graph:Graph' for t in ts):
                continue
            # which graph parameter do the triples come from?
            g = None
            for p in gps:
                if any(isinstance(n, ast.Attribute) and n.attr == 'triples' and isinstance(n.value, ast.Name) and n.value.id == p
                       for n in walk_local(fi.node)):
                    g = p
            if g is None and len(gps) == 1 and fi.module.name == 'penman.transform':
                g = gps[0]               # a helper that rebuilds the graph from triples handed to it together with the graph they were derived from
            if g is None:
                continue
            key = f'{fi.module.name}:{fi.qualname}: {norm(call)[:80]}'
            top = call.args[1] if len(call.args) > 1 else next((k.value for k in call.keywords if k.arg == 'top'), None)
            if top is None:
                rep.violation(key, fi.loc(call),
                              f'the graph is rebuilt from {g}.triples without top=: an explicitly chosen top is silently reset '
                              f'to the source of the first triple')
                continue
            tv = single_def(ctx, fi, top)
            good = isinstance(tv, ast.Attribute) and tv.attr in ('top', '_top') and isinstance(tv.value, ast.Name) and tv.value.id == g
            # the parameter must not have been re-bound before (g = Graph(...) happens at the end)
            (rep.ok if good else rep.violation)(key, fi.loc(call), '' if good else f'top= is {norm(top)}, not {g}.top')
    return rep


# ---------------------------------------------------------------------------------------------
def _truth_leaves(e: ast.AST) -> List[ast.AST]:
    if isinstance(e, ast.BoolOp):
        out = []
        for v in e.values:
            out += _truth_leaves(v)
        return out
    if isinstance(e, ast.UnaryOp) and isinstance(e.op, ast.Not):
        return _truth_leaves(e.operand)
    return [e]


def _truth_tests(fnode) -> List[Tuple[ast.AST, ast.AST]]:
    """(leaf expression tested for truthiness, owning node)"""
    out = []
    for n in walk_local(fnode):
        tests = []
        if isinstance(n, (ast.If, ast.While, ast.IfExp, ast.Assert)):
            tests.append(n.test)
        elif isinstance(n, ast.comprehension):
            tests += n.ifs
        elif isinstance(n, ast.BoolOp):
            # value-position `a or b` / `a and b` also tests a for truthiness
            tests += n.values[:-1]
        elif isinstance(n, ast.UnaryOp) and isinstance(n.op, ast.Not):
            tests.append(n.operand)
        for t in tests:
            for leaf in _truth_leaves(t):
                if isinstance(leaf, (ast.Name, ast.Attribute, ast.Subscript)):
                    out.append((leaf, n))
    seen, uniq = set(), []
    for leaf, owner in out:
        if id(leaf) not in seen:
            seen.add(id(leaf))
            uniq.append((leaf, owner))
    return uniq


R4_FROZEN = {
    ('penman.layout:_process_atomic', 'target'): 'the test only guards a substring search for ~; every falsy value correctly '
                                                 'takes the "no alignment" exit and is returned unchanged',
    ('penman.tree:_default_variable_prefix', 'concept'): 'the second conjunct isinstance(concept, str) already sends every '
                                                        'non-string to the same default prefix, and the empty string has no letter',
}


@rule('R4', 'a constant (target / concept / tree atom) is never tested for truthiness: 0, 0.0 and "" are not None')
def r4(ctx: Ctx) -> RuleReport:
    rep = RuleReport('R4', r4.title, floor=3)
    n_tests = 0
    for fi in ctx.repo.all_functions():
        for leaf, owner in _truth_tests(fi.node):
            t = ctx.types.type_of(fi, leaf)
            n_tests += 1
            if not (has(t, 'Atom') or has(t, 'Const')):
                continue
            if has(t, 'Role'):
                # "role or constant" is no slot of a triple or a branch: the slots were merged by the inference (tuple(x), list(x) ...), nothing is known
                rep.add(f'{fi.module.name}:{fi.qualname}: truth test of {norm(leaf)}', fi.loc(leaf), 'info', f'type {show(t)} is a merge of several slots: not judged')
                continue
            key = f'{fi.module.name}:{fi.qualname}: truth test of {norm(leaf)} in `{norm(owner).splitlines()[0][:60]}`'
            fz = R4_FROZEN.get((fi.fq, norm(leaf)))
            if fz:
                rep.exception(key, fi.loc(leaf), fz)
            else:
                rep.violation(key, fi.loc(leaf),
                              f'{norm(leaf)} : {show(t)} may be the constant 0 or 0.0, which is falsy but is not a missing value: '
                              f'the branch taken drops or mis-handles it (accepted idioms: `is None`, `== \'\'`, `in (None, \'\')`)')
    rep.analysed['truth_tests_typed'] = n_tests
    # compliant sites: explicit None / empty-string tests on constants (the repaired idiom)
    for fi in ctx.repo.all_functions():
        for n in walk_local(fi.node):
            if isinstance(n, ast.Compare) and len(n.ops) == 1 and isinstance(n.ops[0], (ast.Is, ast.IsNot)) \
                    and isinstance(n.comparators[0], ast.Constant) and n.comparators[0].value is None:
                t = ctx.types.type_of(fi, n.left)
                if has(t, 'Atom') or has(t, 'Const'):
                    rep.ok(f'{fi.module.name}:{fi.qualname}: {norm(n)}', fi.loc(n), 'explicit None test')
    return rep


# ---------------------------------------------------------------------------------------------
R11_FROZEN = {
    'penman.layout:rearrange.sort_key': 'the membership test only decides the attributes-first grouping of branches; an aligned '
                                        'reference is ordered with the attributes but the tree content is unchanged',
    'penman._format:_format_node': 'the membership test only decides whether a branch may share the first line in compact mode '
                                   '(whitespace only)',
}


def _only_feeds_sort_key(ctx: Ctx, fi: FuncInfo, test: ast.AST) -> bool:
    """The membership test only contributes to the tuple a sort-key function returns (a function handed to sorted/sort as key=,
    directly or through functools.partial)."""
    rets = [n for n in walk_local(fi.node) if isinstance(n, ast.Return) and n.value is not None]
    if not rets or not all(isinstance(r.value, ast.Tuple) for r in rets):
        return False
    used_as_key = False
    for f in ctx.repo.all_functions():
        for c in walk_local(f.node):
            if not isinstance(c, ast.Call):
                continue
            cands = [k.value for k in c.keywords if k.arg == 'key'] + [a for a in c.args]
            for v in cands:
                if isinstance(v, ast.Name) and v.id == fi.name and (f.fq == (fi.parent.fq if fi.parent else None) or fi.parent is None):
                    used_as_key = True
                if isinstance(v, ast.Call) and norm(v.func) in ('partial', 'functools.partial') and v.args and norm(v.args[0]) == fi.name:
                    used_as_key = True
            if isinstance(c, ast.Call) and norm(c.func) in ('partial', 'functools.partial') and c.args and norm(c.args[0]) == fi.name:
                used_as_key = True
    if not used_as_key:
        return False
    # the test's value flows into a name / directly into the returned tuple, never into a branch condition
    pm = ctx.repo.parent_map(fi.node)
    par = pm.get(id(test))
    while isinstance(par, (ast.BoolOp, ast.UnaryOp, ast.IfExp)) and not (isinstance(par, ast.IfExp) and par.test is test):
        test, par = par, pm.get(id(par))
    return isinstance(par, (ast.Assign, ast.Tuple, ast.Return))


def _var_keyed(t: T) -> bool:
    for a in t:
        if a[0] == 'set' and has(a[1], 'Var'):
            return True
        if a[0] == 'dict' and has(a[1], 'Var'):
            return True
    return False


@rule('R11', 'a raw tree atom (which may end in ~alignment) is never looked up among variables without stripping the suffix')
def r11(ctx: Ctx) -> RuleReport:
    rep = RuleReport('R11', r11.title, floor=2)
    n_sites = 0
    for fi in ctx.repo.all_functions():
        for n in walk_local(fi.node):
            cand = []
            if isinstance(n, ast.Compare) and len(n.ops) == 1 and isinstance(n.ops[0], (ast.In, ast.NotIn)):
                cand.append((n.left, n.comparators[0], 'membership'))
            elif isinstance(n, ast.Subscript) and isinstance(n.ctx, ast.Load) and not isinstance(n.slice, ast.Slice):
                cand.append((n.slice, n.value, 'lookup'))
            for keyexpr, cont, kind in cand:
                ct = ctx.types.type_of(fi, cont)
                if not _var_keyed(ct):
                    continue
                kt = ctx.types.type_of(fi, keyexpr)
                n_sites += 1
                key = f'{fi.module.name}:{fi.qualname}: {kind} {norm(n)}'
                if has(kt, 'Atom'):
                    fz = R11_FROZEN.get(fi.fq)
                    if fz is None and _only_feeds_sort_key(ctx, fi, n):
                        fz = R11_FROZEN['penman.layout:rearrange.sort_key']
                    if fz:
                        rep.exception(key, fi.loc(n), fz)
                    else:
                        rep.violation(key, fi.loc(n),
                                      f'{norm(keyexpr)} : {show(kt)} is a raw branch target (e.g. `x~e.1` is one string); looked up '
                                      f'in {norm(cont)} : {show(ct)} it never matches, so an aligned reference is treated as a constant')
                elif kind == 'membership' and fi.module.name in ('penman.tree', 'penman.layout'):
                    rep.ok(key, fi.loc(n), f'key type {show(kt)}')
    rep.analysed['variable_keyed_lookups'] = n_sites
    return rep


# ---------------------------------------------------------------------------------------------
def endless_loops(ctx: Ctx, fi: FuncInfo, cfg: CFG) -> Set[int]:
    """CFG ids of `for` loops over an iterator that never ends (itertools.count, possibly inside chain/generators)."""
    out = set()
    for n in walk_local(fi.node):
        if isinstance(n, ast.For):
            src = norm(n.iter)
            for x in ast.walk(n.iter):
                if isinstance(x, ast.Name):
                    d = single_def(ctx, fi, x)
                    if d is not x:
                        src += ' ' + norm(d)
            if 'count(' in src and 'islice' not in src and 'takewhile' not in src:
                out.add(cfg.node_of(n))
    return out


def may_unproven(cfg: CFG, accept: Set[Tuple[str, bool]], killers: Set[str], endless: Optional[Set[int]] = None) -> Dict[int, Set[str]]:
    """Forward may-analysis.  State 'U' (unproven) / 'P' (proven).  An edge out of a cond node whose
    (condition, polarity) is in `accept` turns U into P; a node that re-binds or mutates a name in
    `killers` turns P back into U.  Returns the possible states on entry to each node."""
    from collections import deque
    IN: Dict[int, Set[str]] = {cfg.entry: {'U'}}
    work = deque([cfg.entry])
    while work:
        n = work.popleft()
        node = cfg.nodes[n]
        for m, lab in cfg.succ[n]:
            out = set()
            for s in IN[n]:
                s2 = s
                if node.kind == 'for' and lab == 'F' and ((isinstance(getattr(node.ast, 'iter', None), ast.Call)
                                                          and norm(node.ast.iter.func) in ('count', 'itertools.count')) or (endless and n in endless)):
                    continue                # an endless counter: the loop is only left by break
                if node.kind in ('stmt', 'for') and not (node.kind == 'for' and lab == 'F'):
                    if (assigned_names(node.ast) | mutated_bases(node.ast)) & killers:
                        s2 = 'U'
                if node.kind == 'cond' and lab in ('T', 'F') and (norm(node.ast), lab == 'T') in accept:
                    s2 = 'P'
                out.add(s2)
            if not out <= IN.get(m, set()):
                IN.setdefault(m, set()).update(out)
                work.append(m)
    return IN


@rule('R31', 'a generated variable is accepted only after it was tested to be unused, and is recorded as used before the next search')
def r31(ctx: Ctx) -> RuleReport:
    rep = RuleReport('R31', r31.title, floor=4)
    targets = [('penman.transform', 'reify_attributes'), ('penman.tree', 'Tree.reset_variables'), ('penman.model', 'Model.reify'),
               ('penman.transform', 'reify_edges')]
    for mod, qn in targets:
        fi = ctx.repo.func(mod, qn)
        cfg = CFG(fi.node)
        pm = ctx.repo.parent_map(fi.node)
        adds = [n for n in walk_local(fi.node) if isinstance(n, ast.Call) and isinstance(n.func, ast.Attribute)
                and n.func.attr == 'add' and len(n.args) == 1 and isinstance(n.args[0], ast.Name)
                and isinstance(n.func.value, ast.Name) and has(ctx.types.type_of(fi, n.func.value), 'set')]
        for a in adds:
            S, X = a.func.value.id, a.args[0].id
            # is S an avoid-set here?  (tested for membership of X, or handed to Model.reify)
            tested = any(isinstance(n, ast.Compare) and norm(n) in (f'{X} in {S}', f'{X} not in {S}') for n in walk_local(fi.node))
            via_reify = None
            xdef = single_def(ctx, fi, ast.Name(id=X, ctx=ast.Load()))
            if not tested:
                # X = node_triple[0] with node_triple from model.reify(triple, S)
                for call, ts in ctx.cg.calls_in(fi):
                    if any(t.kind == 'func' and t.func.qualname == 'Model.reify' for t in ts):
                        if len(call.args) > 1 and norm(call.args[1]) == S or any(k.arg == 'variables' and norm(k.value) == S for k in call.keywords):
                            via_reify = call
            if not tested and via_reify is None:
                continue
            key = f'{fi.module.name}:{fi.qualname}: {norm(a)}'
            # the avoid-set must hold every variable of the graph before the first name is drawn
            if fi.qualname in ('reify_edges', 'reify_attributes'):
                inits = [x for x in ctx.cg.local_assigns(fi).get(S, []) if isinstance(x, ast.AST)]
                from_graph = any(isinstance(y, ast.Call) and isinstance(y.func, ast.Attribute) and y.func.attr == 'variables' for x in inits for y in ast.walk(x))
                own = [n for n in walk_local(fi.node) if isinstance(n, ast.Call) and isinstance(n.func, ast.Attribute) and n.func.attr == 'add'
                       and norm(n.func.value) == S and n.args and isinstance(n.args[0], ast.Subscript) and try_fold(n.args[0].slice) == (True, 0)]
                k2 = f'{fi.module.name}:{fi.qualname}: the set `{S}` of names to avoid holds all variables of the graph from the start'
                if from_graph:
                    rep.ok(k2, fi.loc(a), f'{S} = {norm(inits[0])[:40]}')
                elif own:
                    rep.violation(k2, fi.loc(own[0]), f'`{S}` starts as `{norm(inits[0])[:40] if inits else "?"}` and the graph\'s own variables are added one triple at a '
                                  f'time (`{norm(own[0])}`) by the very loop that draws fresh names from it: a node named `_` that comes later in the '
                                  f'triple list is not avoided, and the new node is merged with it')
                else:
                    rep.undecided(k2, fi.loc(a), f'{[norm(x)[:40] for x in inits]}')
            if tested:
                states = may_unproven(cfg, {(f'{X} in {S}', False), (f'{X} not in {S}', True)}, {X}, endless_loops(ctx, fi, cfg))
                nid = owner_node(cfg, pm, a)
                bad = 'U' in states.get(nid, {'U'})
                rep.add(key, fi.loc(a), 'violation' if bad else 'ok',
                        f'{X} can reach {S}.add({X}) on a path where its last value was never tested to be outside {S}: '
                        f'a generated name may collide with an existing variable' if bad else
                        f'every path re-tests `{X} in {S}` after the last assignment of {X}')
            else:
                # the fresh name comes out of Model.reify(…, S): it must be the variable of the reified node
                okx = isinstance(xdef, ast.Subscript) and norm(xdef.slice) == '0'
                rep.add(key, fi.loc(a), 'ok' if okx else 'undecided',
                        'variable returned by Model.reify (freshness shown there)' if okx else f'{X} is {norm(xdef)}')
            # recorded before the next search: no path from the search back to itself avoiding the add
            loop = None
            n = a
            while id(n) in pm:
                n = pm[id(n)]
                if isinstance(n, (ast.For, ast.While)) and not (isinstance(n, ast.While) and f'{X} in {S}' in norm(n.test)):
                    loop = n
                    break
            if loop is not None:
                head = cfg.node_of(loop)
                anode = owner_node(cfg, pm, a)
                search_nodes = set()
                for m in ast.walk(loop):
                    if tested and isinstance(m, ast.While) and f'{X} in {S}' in norm(m.test):
                        search_nodes.add(cfg.node_of(m))
                    if via_reify is not None and m is via_reify:
                        search_nodes.add(owner_node(cfg, pm, m))
                for sn in search_nodes:
                    path = cfg.path_avoiding([(sn, None)], {head}, lambda nd: nd.id == anode)
                    # leaving the search towards the loop head without recording the name
                    bad = path is not None and not _search_skipped(cfg, path, sn)
                    rep.add(key + ' recorded before the next search', fi.loc(a), 'violation' if bad else 'ok',
                            f'the chosen name is not added to {S} on every path before the next search' if bad else '')
    # Model.reify: at the return the candidate is outside `variables` (or no avoid-set was given)
    fi = ctx.repo.func('penman.model', 'Model.reify')
    cfg = CFG(fi.node)
    vp = fi.positional[2]
    rets = [nd for nd in cfg.nodes if nd.kind == 'stmt' and isinstance(nd.ast, ast.Return)]
    var = None
    for r in rets:
        v = r.ast.value
        if isinstance(v, ast.Tuple) and len(v.elts) == 3 and all(isinstance(e, ast.Tuple) and len(e.elts) == 3 for e in v.elts):
            heads = {norm(e.elts[0]) for e in v.elts}
            if len(heads) == 1:
                var = heads.pop()
    if var is None:
        raise AnalysisError('Model.reify: return is not three triples with a common source')
    from ..resolve import unique_def, view
    for r in rets:
        key = f'penman.model:Model.reify: returned variable {var} is outside `{vp}`'
        d = unique_def(view(ctx, fi), var, r.ast)
        helper = None
        if isinstance(d, ast.Call):
            fs = [t.func for t in ctx.cg.resolve_call(d, fi) if t.kind == 'func']
            if len(fs) == 1 and any(norm(a) == vp for a in d.args):
                helper = (fs[0], [norm(a) for a in d.args].index(vp))
        if helper is not None:
            h, k = helper
            pos = h.positional[1:] if h.is_method() and 'staticmethod' not in h.decorators() else h.positional
            hp = pos[k]
            hcfg = CFG(h.node)
            hrets = [nd for nd in hcfg.nodes if nd.kind == 'stmt' and isinstance(nd.ast, ast.Return)]
            if not hrets or not all(isinstance(x.ast.value, ast.Name) for x in hrets):
                rep.undecided(key + f' (via {h.qualname})', h.loc(), 'helper does not return a plain name')
                continue
            for hr in hrets:
                hv = hr.ast.value.id
                st = may_unproven(hcfg, {(f'{hv} in {hp}', False), (hp, False), (f'{hv} not in {hp}', True)}, {hv}, endless_loops(ctx, h, hcfg))
                bad = 'U' in st.get(hr.id, {'U'})
                rep.add(key + f' (via {h.qualname})', h.loc(hr.ast), 'violation' if bad else 'ok',
                        f'{h.qualname} can return {hv} without having tested it against {hp}' if bad else '')
            continue
        states = may_unproven(cfg, {(f'{var} in {vp}', False), (vp, False), (f'{var} not in {vp}', True)}, {var}, endless_loops(ctx, fi, cfg))
        bad = 'U' in states.get(r.id, {'U'})
        if bad:
            # the name may be produced by a search expression instead of a test-and-loop: next(<candidates filtered by membership in the avoid-set>)
            vdefs = [v_ for v_ in ctx.cg.local_assigns(fi).get(var, []) if isinstance(v_, ast.AST)]
            searches = [v_ for v_ in vdefs if isinstance(v_, ast.Call) and norm(v_.func) == 'next' and v_.args]
            proved = []
            for sx in searches:
                a0 = sx.args[0]
                if isinstance(a0, ast.GeneratorExp) and len(a0.generators) == 1 and isinstance(a0.generators[0].target, ast.Name) \
                        and norm(a0.elt) == a0.generators[0].target.id \
                        and any(norm(c).replace(' ', '') == f'{a0.generators[0].target.id}notin{vp}' for c in a0.generators[0].ifs):
                    proved.append(sx)
                elif isinstance(a0, ast.Call) and norm(a0.func) in ('filterfalse', 'itertools.filterfalse') and a0.args:
                    pn_ = a0.args[0]
                    if isinstance(pn_, ast.Name):
                        pv_ = [x_ for x_ in ctx.cg.local_assigns(fi).get(pn_.id, []) if isinstance(x_, ast.AST)]
                        if len(pv_) == 1:
                            pn_ = pv_[0]
                    pred = norm(pn_).replace(' ', '')
                    if pred in (f'partial(operator.contains,{vp})', f'functools.partial(operator.contains,{vp})', f'partial(contains,{vp})', f'{vp}.__contains__'):
                        proved.append(sx)
            if searches and len(proved) == len(searches):
                rep.ok(key, fi.loc(r.ast), f'{var} is the first candidate that is not in {vp} ({norm(proved[0])[:60]})')
                continue
            if searches or any(isinstance(v_, ast.Call) and not (isinstance(v_.func, ast.Attribute) and v_.func.attr == 'format') for v_ in vdefs):
                rep.undecided(key, fi.loc(r.ast), f'{var} is produced by {[norm(v_)[:50] for v_ in vdefs]}: not a form this rule reads')
                continue
        rep.add(key, fi.loc(r.ast), 'violation' if bad else 'ok',
                f'{var} can be returned without having been tested against {vp}' if bad else '')
    return rep


def _search_skipped(cfg, path, sn) -> bool:
    return False


def _r30_regex_split(ctx: Ctx, fi: FuncInfo, loop, parts):
    """role split with a regular expression: m = RX.match(role); out = canonicalize_role(m.group(A)) + m.group(B) [or ''].
    Decided with E5: every text the parser can put into a role slot (ROLE token + optional ALIGNMENT token) must be matched completely by RX,
    otherwise the tail that is not matched is dropped from the output role."""
    from ..rx import Lang
    from .small import _regex_of
    m_assign = None
    for n in ast.walk(loop):
        if isinstance(n, ast.Assign) and isinstance(n.targets[0], ast.Name) and isinstance(n.value, ast.Call) and isinstance(n.value.func, ast.Attribute) \
                and n.value.func.attr in ('match', 'fullmatch') and len(n.value.args) == 1:
            m_assign = n
    if m_assign is None:
        return None
    pat, flags = _regex_of(ctx, fi, m_assign.value.func.value)
    if not isinstance(pat, str):
        return None
    try:
        got = Lang.from_pattern(pat, int(flags or 0), 'role split')
        alts = {n: l for n, l, _ in ctx.lex.compiled['PENMAN_RE'].alts if n}
        role_l, aln_l = alts['ROLE'], alts['ALIGNMENT']
        want = role_l.union(role_l.cat(aln_l))
        w = want.witness_not_subset(got)
    except Exception as e:       # noqa
        return ('undecided', f'pattern {pat!r} is not modelled: {e}')
    if w is not None:
        return ('violation', f'the role text is split with the pattern {pat!r}, which does not match all of {w!r} (a ROLE token followed by an ALIGNMENT token, as the parser '
                             f'stores it in the role slot): the part that is not matched is left out of the canonical role, so canonicalising changes more than the role text')
    # the pieces that are glued together again must be all groups of the pattern, in order
    return ('undecided', f'pattern {pat!r} matches every ROLE [ALIGNMENT] text completely, but how the groups are glued together again is not analysed')


# ---------------------------------------------------------------------------------------------
@rule('R30', 'tree rewriting maps branch to branch: one output branch per input branch, untouched parts passed through')
def r30(ctx: Ctx) -> RuleReport:
    rep = RuleReport('R30', r30.title, floor=8)
    from .lexical import map_vars_func
    specs = [('penman.transform', '_canonicalize_node', 'role'), ('penman.tree', map_vars_func(ctx).qualname, 'target')]
    for mod, qn, rewrites in specs:
        fi = ctx.repo.func(mod, qn)
        cfg = CFG(fi.node)
        IN = cond_facts(cfg)
        pm = ctx.repo.parent_map(fi.node)
        np_ = fi.positional[0]
        # var, branches = node
        unpack = None
        for n in walk_local(fi.node):
            if isinstance(n, ast.Assign) and isinstance(n.targets[0], ast.Tuple) and len(n.targets[0].elts) == 2 and norm(n.value) == np_:
                unpack = [norm(e) for e in n.targets[0].elts]
        if unpack is None:
            raise AnalysisError(f'{fi.fq}: no `var, branches = node` unpacking')
        v_var, v_br = unpack
        # the input node is read, never written: the (variable, branches) tuple cannot follow a change made to its list
        rebound = any(isinstance(n, ast.Assign) and any(norm(t) == v_br for t in n.targets) and norm(n.value) != np_ for n in walk_local(fi.node))
        inplace = []
        if not rebound:
            for n in walk_local(fi.node):
                if isinstance(n, (ast.Assign, ast.AugAssign)):
                    for tg in (n.targets if isinstance(n, ast.Assign) else [n.target]):
                        if isinstance(tg, ast.Subscript) and norm(tg.value) == v_br:
                            inplace.append((n, f'`{norm(tg)} = ...`'))
                elif isinstance(n, ast.Delete) and any(isinstance(tg, ast.Subscript) and norm(tg.value) == v_br for tg in n.targets):
                    inplace.append((n, f'`{norm(n)[:40]}`'))
                elif isinstance(n, ast.Call) and isinstance(n.func, ast.Attribute) and norm(n.func.value) == v_br \
                        and n.func.attr in ('append', 'extend', 'insert', 'pop', 'remove', 'clear', 'sort', 'reverse'):
                    inplace.append((n, f'`{norm(n)[:40]}`'))
        key_ip = f'{fi.fq}: the branch list of the input node is not written'
        if inplace:
            n0, what = inplace[0]
            rep.violation(key_ip, fi.loc(n0), f'{what} changes the list inside the caller\'s node in place. The node is a tuple (variable, branches): its variable cannot be '
                          f'replaced, so the structure the caller still holds is left half-rewritten (old variable at this node, new content below it), and every other Tree or '
                          f'sub-tree that shares the node is changed behind its back')
            continue
        rep.ok(key_ip, fi.loc())
        loops = [n for n in walk_local(fi.node) if isinstance(n, ast.For) and norm(n.iter) == v_br]
        if not loops and rewrites == 'target' and _r30_comprehension_form(ctx, rep, fi, v_var, v_br):
            continue
        if len(loops) != 1:
            rep.undecided(f'{fi.fq}: one loop over all branches of the node', fi.loc(), f'{len(loops)} loops over {v_br}')
            continue
        loop = loops[0]
        rep.ok(f'{fi.fq}: one loop over all branches of the node', fi.loc(loop))
        head = cfg.node_of(loop)
        exits = [n for n in ast.walk(loop) if isinstance(n, (ast.Break, ast.Continue, ast.Return))]
        rep.add(f'{fi.fq}: no break/continue/return inside the loop', fi.loc(loop), 'violation' if exits else 'ok',
                f'{[type(e).__name__ for e in exits]}: an input branch can be dropped' if exits else '')
        apps = [n for n in ast.walk(loop) if isinstance(n, ast.Call) and isinstance(n.func, ast.Attribute) and n.func.attr == 'append'
                and isinstance(n.func.value, ast.Name)]
        outs = {a.func.value.id for a in apps}
        if len(outs) != 1:
            rep.undecided(f'{fi.fq}: branches are appended to one output list', fi.loc(loop), f'appends to {sorted(outs)}')
            continue
        out = outs.pop()
        app_nodes = {owner_node(cfg, pm, a) for a in apps}
        path = cfg.path_avoiding([(head, 'T')], {head, cfg.exit}, lambda nd: nd.id in app_nodes)
        rep.add(f'{fi.fq}: every input branch yields an output branch', fi.loc(loop), 'violation' if path else 'ok',
                'an iteration can finish without appending' if path else '')
        twice = None
        for an in app_nodes:
            twice = twice or cfg.path_avoiding([(an, None)], app_nodes, lambda nd: nd.id == head)
        rep.add(f'{fi.fq}: at most one output branch per input branch', fi.loc(loop), 'violation' if twice else 'ok',
                'an iteration can append twice' if twice else '')
        # loop variables
        if isinstance(loop.target, ast.Tuple) and len(loop.target.elts) == 2:
            l_role, l_tgt = norm(loop.target.elts[0]), norm(loop.target.elts[1])
        elif isinstance(loop.target, ast.Name):
            l_role = l_tgt = None
            for n in ast.walk(loop):
                if isinstance(n, ast.Assign) and isinstance(n.targets[0], ast.Tuple) and len(n.targets[0].elts) == 2 \
                        and norm(n.value) == loop.target.id:
                    l_role, l_tgt = norm(n.targets[0].elts[0]), norm(n.targets[0].elts[1])
                    break
            if l_role is None:
                raise AnalysisError(f'{fi.fq}: loop variable is not unpacked into (role, target)')
        else:
            raise AnalysisError(f'{fi.fq}: unsupported loop target')
        for a in apps:
            arg = a.args[0] if a.args else None
            if not (isinstance(arg, ast.Tuple) and len(arg.elts) == 2):
                rep.undecided(f'{fi.fq}: the appended branch is a (role, target) pair', fi.loc(a), norm(a))
                continue
            o_role, o_tgt = arg.elts
            if rewrites == 'target':
                # role passed through untouched
                stores = [n for n in ast.walk(loop) if isinstance(n, (ast.Assign, ast.AugAssign)) and l_role in assigned_names(n)
                          and not (isinstance(n, ast.Assign) and isinstance(n.targets[0], ast.Tuple))]
                good = norm(o_role) == l_role and not stores
                rep.add(f'{fi.fq}: roles are passed through unchanged', fi.loc(a), 'ok' if good else 'undecided',
                        '' if good else f'role slot is {norm(o_role)}; role re-bound at {[norm(s)[:40] for s in stores]}')
                # target rewritten only (a) by recursion on non-atomic targets, (b) by the variable map on non-concept atoms
                for n in ast.walk(loop):
                    if isinstance(n, ast.Assign) and norm(n.targets[0]) == l_tgt:
                        facts = facts_at(cfg, IN, pm, n)
                        v = n.value
                        if isinstance(v, ast.Call) and norm(v.func) == fi.name:
                            good = (f'is_atomic({l_tgt})', False) in facts
                            rep.add(f'{fi.fq}: recursion only into nested nodes', fi.loc(n), 'ok' if good else 'undecided')
                        else:
                            # any further test on the *spelling* of the atom excludes some variables from being renamed
                            names_of_atom = {l_tgt} | {norm(e) for m in ast.walk(loop) if isinstance(m, ast.Assign) and isinstance(m.targets[0], ast.Tuple)
                                                       and isinstance(m.value, ast.Call) and isinstance(m.value.func, ast.Attribute)
                                                       and m.value.func.attr == 'partition' and norm(m.value.func.value) == l_tgt for e in m.targets[0].elts[:1]}
                            for f, pol in sorted(facts):
                                try:
                                    fe = ast.parse(f, mode='eval').body
                                except SyntaxError:
                                    continue
                                spelled = [x for x in ast.walk(fe) if (isinstance(x, ast.Call) and isinstance(x.func, ast.Attribute)
                                                                       and norm(x.func.value).split('[')[0] in names_of_atom
                                                                       and x.func.attr in ('isalpha', 'isalnum', 'isidentifier', 'startswith', 'endswith', 'islower',
                                                                                           'isupper', 'isdigit', 'isnumeric', 'isascii'))
                                           or (isinstance(x, ast.Call) and norm(x.func) in ('re.match', 're.fullmatch', 're.search')
                                               and any(norm(a) in names_of_atom for a in x.args))]
                                if spelled:
                                    rep.violation(f'{fi.fq}: every reference to a renamed variable is rewritten', fi.loc(n),
                                                  f'the rewrite runs only when `{f}` is {pol}: a variable is any symbol (`_`, `_2`, `0a` ...), so a '
                                                  f'reference whose spelling fails this test keeps its old name while its definition is renamed')
                            good = (f"{l_role} != '/'", True) in facts or (f"{l_role} == '/'", False) in facts
                            if good:
                                rep.ok(f'{fi.fq}: the concept branch is never rewritten', fi.loc(n))
                            else:
                                # another test of the role: evaluate it on the concept marker and on role spellings a tree may carry
                                role_facts = []
                                for f, pol in sorted(facts):
                                    try:
                                        fe = ast.parse(f, mode='eval').body
                                    except SyntaxError:
                                        continue
                                    nms = {x.id for x in ast.walk(fe) if isinstance(x, ast.Name)}
                                    if nms == {l_role}:
                                        role_facts.append((f, fe, pol))

                                def holds(sample):
                                    out = True
                                    for f, fe, pol in role_facts:
                                        okv, val = try_fold(fe, {l_role: sample})
                                        if not okv:
                                            return None
                                        out = out and (bool(val) == pol)
                                    return out
                                on_concept = holds('/') if role_facts else True
                                samples = [':ARG0', ':ARG0-of', ':mod', ':', 'ARG0', 'mod-of']
                                missed = [smp for smp in samples if role_facts and holds(smp) is False]
                                if on_concept is None or any(holds(smp) is None for smp in samples if role_facts):
                                    rep.undecided(f'{fi.fq}: the concept branch is never rewritten', fi.loc(n),
                                                  f'`{norm(n)[:60]}` stands under a test of the role that does not fold: {[f for f, _, _ in role_facts]}')
                                elif on_concept:
                                    rep.add(f'{fi.fq}: the concept branch is never rewritten', fi.loc(n), 'violation' if role_facts else 'undecided',
                                            f'`{norm(n)[:60]}` can run on the concept branch (the tests on the role, {[f for f, _, _ in role_facts]}, hold for "/"): a concept '
                                            f'spelled like a variable would be renamed')
                                elif missed:
                                    rep.violation(f'{fi.fq}: every reference to a renamed variable is rewritten', fi.loc(n),
                                                  f'the rewrite runs only when {[(f, pol) for f, _, pol in role_facts]}: that excludes the concept branch, but also branches whose role is '
                                                  f'spelled {missed} (a tree built by hand may leave out the colon, format() adds it): a reference under such a role keeps its '
                                                  f'old name while the node it refers to is renamed')
                                else:
                                    rep.ok(f'{fi.fq}: the concept branch is never rewritten', fi.loc(n), f'role test {[f for f, _, _ in role_facts]} excludes exactly "/"')
                            # shape of the new reference: varmap[ref] (+ tilde + alignment of the same atom)
                            parts = _concat_parts(v)
                            unp = None
                            for m in ast.walk(loop):
                                if isinstance(m, ast.Assign) and isinstance(m.targets[0], ast.Tuple) and len(m.targets[0].elts) == 3 \
                                        and isinstance(m.value, ast.Call) and isinstance(m.value.func, ast.Attribute) \
                                        and m.value.func.attr == 'partition' and norm(m.value.func.value) == l_tgt \
                                        and try_fold(m.value.args[0]) == (True, '~'):
                                    unp = [norm(e) for e in m.targets[0].elts]
                                elif isinstance(m, ast.Assign) and isinstance(m.targets[0], ast.Tuple) and len(m.targets[0].elts) == 3 \
                                        and isinstance(m.value, ast.Call) and isinstance(m.value.func, ast.Attribute) \
                                        and m.value.func.attr in ('partition', 'rpartition') and norm(m.value.func.value) == l_tgt and m.value.args:
                                    oks_, sep_ = try_fold(m.value.args[0])
                                    if oks_ and isinstance(sep_, str) and sep_ != '~':
                                        # the reference is cut at another text: which alignments does that miss?  (E5: the lexer's ALIGNMENT language)
                                        import re as _re
                                        from ..rx import Lang as _Lang
                                        cp_ = ctx.lex.compiled['PENMAN_RE']
                                        w_ = cp_.lang('ALIGNMENT').witness_not_subset(_Lang.from_pattern(_re.escape(sep_) + '.*', _re.S)) if cp_.has('ALIGNMENT') else None
                                        if w_ is not None:
                                            rep.violation(f'{fi.fq}: every reference to a renamed variable is rewritten', fi.loc(m),
                                                          f'the alignment of a reference is split off at {sep_!r}, but the lexer also accepts alignments that do not start that way, '
                                                          f'e.g. {w_!r}: a reference written `b{w_}` is looked up with its alignment still attached, is not found in the map and '
                                                          f'keeps its old name while the node is renamed - the edge silently becomes a dangling attribute')
                                            return rep
                            # the reference is taken from the WRITTEN FORM of the target: str(tgt).partition('~') makes a number look like a variable of the same spelling
                            conv_ = None
                            for m in ast.walk(loop):
                                if isinstance(m, ast.Assign) and isinstance(m.value, ast.Call) and isinstance(m.value.func, ast.Attribute) and m.value.func.attr in ('partition', 'split') \
                                        and isinstance(m.value.func.value, ast.Call) and norm(m.value.func.value.func) in ('str', 'repr', 'format') and m.value.func.value.args \
                                        and norm(m.value.func.value.args[0]) == l_tgt:
                                    conv_ = m
                            if conv_ is not None and not any(f.replace(' ', '') == f'isinstance({l_tgt},str)' and pol for f, pol in facts):
                                rep.violation(f'{fi.fq}: only references are rewritten - a constant that is not a string is left as it is', fi.loc(conv_),
                                              f'`{norm(conv_)[:60]}` takes the written form of ANY target (there is no isinstance({l_tgt}, str) test on this path): the number 2 is looked up '
                                              f'as "2", and when a variable is spelled that way the constant is replaced by that variable\'s new name - a constant turns into a re-entrancy')
                                continue
                            shape_ok = False
                            if len(parts) == 1 and isinstance(parts[0], ast.Subscript) and norm(parts[0].slice) == l_tgt:
                                shape_ok = True          # plain lookup of the whole atom (R11 judges the key)
                            if unp and len(parts) == 3 and isinstance(parts[0], ast.Subscript) and norm(parts[0].slice) == unp[0] \
                                    and norm(parts[1]) == unp[1] and norm(parts[2]) == unp[2]:
                                shape_ok = True
                            uses_replace = any(isinstance(x, ast.Call) and isinstance(x.func, ast.Attribute) and x.func.attr == 'replace'
                                               for x in ast.walk(v))
                            # `new = varmap.get(ref); if new:` tests the new name for truthiness instead of the key for membership
                            truthy = None
                            for f_, pol_ in facts:
                                if pol_ and f_.isidentifier():
                                    dv = single_def(ctx, fi, ast.Name(id=f_, ctx=ast.Load()))
                                    if isinstance(dv, ast.Call) and isinstance(dv.func, ast.Attribute) and dv.func.attr == 'get' and any(
                                            isinstance(x, ast.Name) and x.id == f_ for x in ast.walk(v)):
                                        truthy = (f_, norm(dv))
                            if truthy:
                                rep.violation(f'{fi.fq}: every reference to a renamed variable is rewritten', fi.loc(n),
                                              f'the rewrite runs only when `{truthy[0]}` (= {truthy[1]}) is truthy: a generated name can be the empty string '
                                              f'(format "{{j}}" names the first node ""), and references to that node then keep their old spelling')
                                continue
                            if uses_replace:
                                rep.violation(f'{fi.fq}: a reference is rewritten as new name + its own alignment suffix', fi.loc(n),
                                              f'`{norm(n)[:70]}`: str.replace rewrites every occurrence of the old name, including inside '
                                              f'the alignment suffix (variable `e` with alignment `~e.1`)')
                            elif shape_ok:
                                rep.ok(f'{fi.fq}: a reference is rewritten as new name + its own alignment suffix', fi.loc(n))
                            else:
                                raise AnalysisError(f'R30: rewrite of a reference has an unrecognised shape: {norm(n)[:80]}')
                rep.add(f'{fi.fq}: target slot is the (possibly rewritten) target', fi.loc(a), 'ok' if norm(o_tgt) == l_tgt else 'undecided', norm(o_tgt))
            else:
                # target passed through except by recursion
                for n in ast.walk(loop):
                    if isinstance(n, ast.Assign) and norm(n.targets[0]) == l_tgt:
                        facts = facts_at(cfg, IN, pm, n)
                        v = n.value
                        good = isinstance(v, ast.Call) and norm(v.func) == fi.name and (f'is_atomic({l_tgt})', False) in facts
                        if isinstance(v, ast.IfExp):
                            # tgt = tgt if is_atomic(tgt) else <recursion>(tgt, ...)
                            rc_ = lambda x: isinstance(x, ast.Call) and norm(x.func) == fi.name and x.args and norm(x.args[0]) == l_tgt  # noqa: E731
                            good = (norm(v.test) == f'is_atomic({l_tgt})' and norm(v.body) == l_tgt and rc_(v.orelse)) or \
                                (norm(v.test) == f'not is_atomic({l_tgt})' and norm(v.orelse) == l_tgt and rc_(v.body))
                        rep.add(f'{fi.fq}: targets change only by recursion into nested nodes', fi.loc(n), 'ok' if good else 'undecided', norm(n)[:60])
                from ..resolve import expand
                ot = expand(ctx, fi, o_tgt, a)
                tgt_ok = norm(o_tgt) == l_tgt
                if isinstance(ot, ast.IfExp):
                    rec_call = lambda x: isinstance(x, ast.Call) and norm(x.func) == fi.name and x.args and norm(x.args[0]) == l_tgt  # noqa: E731
                    if norm(ot.test) == f'is_atomic({l_tgt})' and norm(ot.body) == l_tgt and rec_call(ot.orelse):
                        tgt_ok = True
                    if norm(ot.test) == f'not is_atomic({l_tgt})' and norm(ot.orelse) == l_tgt and rec_call(ot.body):
                        tgt_ok = True
                rep.add(f'{fi.fq}: target slot is the loop target (nested nodes by recursion)', fi.loc(a), 'ok' if tgt_ok else 'undecided', norm(o_tgt))
                # role: canonicalize_role(base) + tilde + alignment with (base, tilde, alignment) = role.partition('~')
                r = single_def(ctx, fi, o_role)
                parts = _concat_parts(r)
                part_ok = False
                unp = None
                for n in ast.walk(loop):
                    if isinstance(n, ast.Assign) and isinstance(n.targets[0], ast.Tuple) and len(n.targets[0].elts) == 3 \
                            and isinstance(n.value, ast.Call) and isinstance(n.value.func, ast.Attribute) \
                            and n.value.func.attr == 'partition' and try_fold(n.value.args[0]) == (True, '~'):
                        unp = [norm(e) for e in n.targets[0].elts]
                if unp and len(parts) == 3:
                    c = parts[0]
                    part_ok = isinstance(c, ast.Call) and norm(c.func).endswith('.canonicalize_role') and len(c.args) == 1 \
                        and norm(c.args[0]) == unp[0] and norm(parts[1]) == unp[1] and norm(parts[2]) == unp[2]
                rx_verdict = None
                if not part_ok and unp:
                    # the alignment text reaches the output role through a call (parsed and written again)?
                    reparse = None
                    for n in ast.walk(loop):
                        if isinstance(n, (ast.AugAssign, ast.Assign)) and any(isinstance(x, ast.Name) and x.id == (o_role.id if isinstance(o_role, ast.Name) else '') for x in ast.walk(n.target if isinstance(n, ast.AugAssign) else n.targets[0])):
                            for c_ in ast.walk(n.value):
                                if isinstance(c_, ast.Call) and not norm(c_.func).endswith('.canonicalize_role') and any(isinstance(y, ast.Name) and y.id == unp[2] for y in ast.walk(c_)):
                                    reparse = c_
                    if reparse is not None:
                        rep.violation(f'{fi.fq}: output role = canonicalize_role(role without alignment) + the same alignment suffix', fi.loc(reparse),
                                      f'the alignment suffix is not passed through as text: it goes through `{norm(reparse)[:60]}`. Parsing and re-writing a marker normalises it '
                                      f'(":ARG0~e.01" becomes ":ARG0~e.1") and raises for a suffix the surface syntax does not know - canonicalising roles must change role names only')
                        continue
                if not part_ok:
                    rx_verdict = _r30_regex_split(ctx, fi, loop, parts)
                if rx_verdict is not None:
                    rep.add(f'{fi.fq}: output role = canonicalize_role(role without alignment) + the same alignment suffix', fi.loc(a), rx_verdict[0], rx_verdict[1])
                    continue
                rep.add(f'{fi.fq}: output role = canonicalize_role(role without alignment) + the same alignment suffix', fi.loc(a),
                        'ok' if part_ok else 'undecided',
                        '' if part_ok else f'role slot is {norm(r)[:80]}; expected canonicalize_role(x) + tilde + alignment with '
                                           f'(x, tilde, alignment) = role.partition("~") of the same branch')
        # return (var-ish, out)
        rets = [n for n in walk_local(fi.node) if isinstance(n, ast.Return) and n.value is not None]
        for r in rets:
            v = r.value
            if isinstance(v, ast.Tuple) and len(v.elts) == 2 and norm(v.elts[1]) == v_br:
                fr = facts_at(cfg, IN, pm, r)
                if (v_br, False) in fr or (f'len({v_br}) == 0', True) in fr or (f'not {v_br}', True) in fr:
                    rep.ok(f'{fi.fq}: returns (variable, output branches)', fi.loc(r), 'the empty branch list is returned as it is')
                    continue
                rep.violation(f'{fi.fq}: returns (variable, output branches)', fi.loc(r),
                              f'`return {norm(v)}` hands back the *input* branch list `{v_br}`: on this path the branches are not rewritten at all '
                              f'(references, nested nodes and roles below this node keep their old form)')
                continue
            good = isinstance(v, ast.Tuple) and len(v.elts) == 2 and norm(v.elts[1]) == out
            if good:
                first = norm(v.elts[0])
                good = first == v_var if rewrites == 'role' else (first.endswith(f'[{v_var}]'))
            rep.add(f'{fi.fq}: returns (variable, output branches)', fi.loc(r), 'ok' if good else 'undecided', norm(v))
    return rep


def _r30_comprehension_form(ctx: Ctx, rep: RuleReport, fi: FuncInfo, v_var: str, v_br: str) -> bool:
    """_map_vars written as one comprehension over the branches, the atom rewrite in a helper.  True if recognised (instances added)."""
    from ..resolve import facts_ex
    comps = [n for n in walk_local(fi.node) if isinstance(n, ast.ListComp) and len(n.generators) == 1 and norm(n.generators[0].iter) == v_br]
    if len(comps) != 1:
        return False
    comp = comps[0]
    g = comp.generators[0]
    if not (isinstance(g.target, ast.Tuple) and len(g.target.elts) == 2 and isinstance(comp.elt, ast.Tuple) and len(comp.elt.elts) == 2):
        return False
    l_role, l_tgt = norm(g.target.elts[0]), norm(g.target.elts[1])
    rep.ok(f'{fi.fq}: one loop over all branches of the node', fi.loc(comp), 'a comprehension over the branch list')
    rep.add(f'{fi.fq}: every input branch yields an output branch', fi.loc(comp), 'violation' if g.ifs else 'ok',
            f'the comprehension filters branches with {[norm(c) for c in g.ifs]}' if g.ifs else '')
    rep.ok(f'{fi.fq}: at most one output branch per input branch', fi.loc(comp))
    rep.ok(f'{fi.fq}: no break/continue/return inside the loop', fi.loc(comp))
    o_role, o_tgt = comp.elt.elts
    rep.add(f'{fi.fq}: roles are passed through unchanged', fi.loc(comp), 'ok' if norm(o_role) == l_role else 'undecided', norm(o_role))
    if not isinstance(o_tgt, ast.IfExp):
        rep.undecided(f'{fi.fq}: target slot is the (possibly rewritten) target', fi.loc(comp), norm(o_tgt)[:60])
        return True
    atomic_arm, nested_arm = (o_tgt.body, o_tgt.orelse) if norm(o_tgt.test) == f'is_atomic({l_tgt})' else (
        (o_tgt.orelse, o_tgt.body) if norm(o_tgt.test) == f'not is_atomic({l_tgt})' else (None, None))
    if atomic_arm is None:
        rep.undecided(f'{fi.fq}: recursion only into nested nodes', fi.loc(comp), norm(o_tgt.test))
        return True
    rec_ok = isinstance(nested_arm, ast.Call) and norm(nested_arm.func) == fi.name and nested_arm.args and norm(nested_arm.args[0]) == l_tgt
    rep.add(f'{fi.fq}: recursion only into nested nodes', fi.loc(comp), 'ok' if rec_ok else 'undecided', norm(nested_arm)[:50])
    if isinstance(atomic_arm, ast.Name) and atomic_arm.id == l_tgt:
        rep.ok(f'{fi.fq}: target slot is the (possibly rewritten) target', fi.loc(comp))
    elif isinstance(atomic_arm, ast.Call):
        hs = [t.func for t in ctx.cg.resolve_call(atomic_arm, fi) if t.kind == 'func']
        args = [norm(a) for a in atomic_arm.args]
        if len(hs) != 1 or l_role not in args or l_tgt not in args:
            rep.undecided(f'{fi.fq}: target slot is the (possibly rewritten) target', fi.loc(comp), norm(atomic_arm)[:60])
            return True
        h = hs[0]
        p_role, p_atom = h.positional[args.index(l_role)], h.positional[args.index(l_tgt)]
        unp = None
        for m in walk_local(h.node):
            if isinstance(m, ast.Assign) and isinstance(m.targets[0], ast.Tuple) and len(m.targets[0].elts) == 3 and isinstance(m.value, ast.Call) \
                    and isinstance(m.value.func, ast.Attribute) and m.value.func.attr == 'partition' and norm(m.value.func.value) == p_atom \
                    and try_fold(m.value.args[0]) == (True, '~'):
                unp = [norm(e) for e in m.targets[0].elts]
        for r in [n for n in walk_local(h.node) if isinstance(n, ast.Return) and n.value is not None]:
            if norm(r.value) == p_atom:
                rep.ok(f'{h.fq}: an atom that is not a reference is returned unchanged', h.loc(r))
                continue
            facts = facts_ex(ctx, h, r)
            good = (f"{p_role} != '/'", True) in facts or (f"{p_role} == '/'", False) in facts
            rep.add(f'{fi.fq}: the concept branch is never rewritten', h.loc(r), 'ok' if good else 'undecided',
                    '' if good else f'`{norm(r)[:60]}` can run on the concept branch: a concept spelled like a variable would be renamed')
            for f, pol in sorted(facts):
                if any(m_ in f for m_ in ('.isalpha(', '.isalnum(', '.isidentifier(', '.startswith(', '.islower(', '.isupper(', '.isdigit(', 're.match(', 're.fullmatch(')) \
                        and (p_atom in f or (unp and unp[0] in f)):
                    rep.violation(f'{fi.fq}: every reference to a renamed variable is rewritten', h.loc(r),
                                  f'the rewrite runs only when `{f}` is {pol}: a variable is any symbol, so a reference whose spelling fails this test keeps its old name')
            parts = _concat_parts(r.value)
            shape_ok = (len(parts) == 1 and isinstance(parts[0], ast.Subscript) and norm(parts[0].slice) == p_atom) or (
                bool(unp) and len(parts) == 3 and isinstance(parts[0], ast.Subscript) and norm(parts[0].slice) == unp[0]
                and norm(parts[1]) == unp[1] and norm(parts[2]) == unp[2])
            uses_replace = any(isinstance(x, ast.Call) and isinstance(x.func, ast.Attribute) and x.func.attr == 'replace' for x in ast.walk(r.value))
            key = f'{fi.fq}: a reference is rewritten as new name + its own alignment suffix'
            if uses_replace:
                rep.violation(key, h.loc(r), f'`{norm(r)[:70]}`: str.replace rewrites every occurrence of the old name, including inside the alignment suffix')
            else:
                rep.add(key, h.loc(r), 'ok' if shape_ok else 'undecided', norm(r.value)[:70])
        rep.ok(f'{fi.fq}: target slot is the (possibly rewritten) target', fi.loc(comp), f'atoms go through {h.qualname}')
    else:
        rep.undecided(f'{fi.fq}: target slot is the (possibly rewritten) target', fi.loc(comp), norm(atomic_arm)[:60])
    # the result
    cname = None
    par = ctx.repo.parent_map(fi.node).get(id(comp))
    if isinstance(par, (ast.Assign, ast.AnnAssign)):
        tg = par.targets[0] if isinstance(par, ast.Assign) else par.target
        cname = norm(tg)
    for r in [n for n in walk_local(fi.node) if isinstance(n, ast.Return) and n.value is not None]:
        v = r.value
        good = isinstance(v, ast.Tuple) and len(v.elts) == 2 and (norm(v.elts[1]) == cname or v.elts[1] is comp) and norm(v.elts[0]).endswith(f'[{v_var}]')
        if isinstance(v, ast.Tuple) and len(v.elts) == 2 and norm(v.elts[1]) == v_br:
            rep.violation(f'{fi.fq}: returns (variable, output branches)', fi.loc(r), f'`return {norm(v)}` hands back the input branch list')
        else:
            rep.add(f'{fi.fq}: returns (variable, output branches)', fi.loc(r), 'ok' if good else 'undecided', norm(v))
    return True


def _concat_parts(e: ast.AST) -> List[ast.AST]:
    if isinstance(e, ast.BinOp) and isinstance(e.op, ast.Add):
        return _concat_parts(e.left) + _concat_parts(e.right)
    return [e]


# ---------------------------------------------------------------------------------------------
@rule('R33', 'every epigraphical marker of a rewritten triple lands in exactly one bucket and every bucket is carried over')
def r33(ctx: Ctx) -> RuleReport:
    rep = RuleReport('R33', r33.title, floor=4)
    fi = ctx.repo.func('penman.transform', '_reified_markers')
    ep = fi.positional[0]
    loops = [n for n in walk_local(fi.node) if isinstance(n, ast.For) and norm(n.iter) == ep]
    if len(loops) != 1:
        raise AnalysisError('_reified_markers: expected one loop over its argument')
    loop = loops[0]
    # if / elif chain with unconditional else
    body = [s for s in loop.body if not isinstance(s, ast.Expr)]
    chain_ok = len(body) == 1 and isinstance(body[0], ast.If)
    n_arms = 0
    st = body[0] if chain_ok else None
    while chain_ok and st is not None:
        n_arms += 1
        if not st.orelse:
            chain_ok = False
            break
        if len(st.orelse) == 1 and isinstance(st.orelse[0], ast.If):
            st = st.orelse[0]
        else:
            n_arms += 1
            st = None
    rep.add(f'{fi.fq}: classification is an if/elif chain ending in an unconditional else', fi.loc(loop),
            'ok' if chain_ok else 'info', f'{n_arms} arms' if chain_ok else 'not an if/elif/else chain (the path check below decides)')
    exits = [n for n in ast.walk(loop) if isinstance(n, (ast.Break, ast.Return))]
    rep.add(f'{fi.fq}: no early exit from the classification loop', fi.loc(loop), 'violation' if exits else 'ok',
            'break/return inside the loop: the markers after it are never classified' if exits else '')
    # every marker is put into exactly one bucket on every path through the loop body
    from ..resolve import view
    v = view(ctx, fi)
    ev = loop.target.id if isinstance(loop.target, ast.Name) else None
    puts = set()
    for n in ast.walk(loop):
        if isinstance(n, ast.Call) and isinstance(n.func, ast.Attribute) and n.func.attr in ('append', 'insert', 'add', 'appendleft') and n.args \
                and norm(n.args[-1]) == ev:
            puts.add(v.node_of(n))
        if isinstance(n, ast.Assign) and isinstance(n.targets[0], ast.Name) and norm(n.value) == ev:
            puts.add(v.node_of(n))
        if isinstance(n, ast.AugAssign) and isinstance(n.op, ast.Add) and isinstance(n.value, (ast.List, ast.Tuple)) and [norm(e) for e in n.value.elts] == [ev]:
            puts.add(v.node_of(n))
    head = v.cfg.node_of(loop)
    if puts:
        skip = v.cfg.path_avoiding([(head, 'T')], {head, v.cfg.exit}, lambda nd: nd.id in puts)
        rep.add(f'{fi.fq}: every marker lands in a bucket', fi.loc(loop), 'violation' if skip else 'ok',
                'a marker can pass through the loop body without being stored anywhere: ' + ' -> '.join(repr(v.cfg.nodes[x]) for x in skip)[:200] if skip else '')
        twice = None
        for pn in puts:
            twice = twice or v.cfg.path_avoiding([(pn, None)], puts, lambda nd: nd.id == head)
        rep.add(f'{fi.fq}: no marker lands in two buckets', fi.loc(loop), 'violation' if twice else 'ok')
    rets = [n for n in walk_local(fi.node) if isinstance(n, ast.Return) and n.value is not None]
    buckets = [norm(e) for e in rets[0].value.elts] if rets and isinstance(rets[0].value, ast.Tuple) else []
    nt_fields: List[str] = []
    if rets and isinstance(rets[0].value, ast.Call) and isinstance(rets[0].value.func, ast.Name) and rets[0].value.func.id in fi.module.classes:
        # a NamedTuple result:  return _SplitMarkers(push=push, pops=pops, ...)  (or positionally)
        cdef = fi.module.classes[rets[0].value.func.id].node
        nt_fields = [b.target.id for b in cdef.body if isinstance(b, ast.AnnAssign) and isinstance(b.target, ast.Name)]
        rc = rets[0].value
        byname = {k.arg: norm(k.value) for k in rc.keywords if k.arg}
        pos = [norm(a) for a in rc.args]
        buckets = [(pos[i] if i < len(pos) else byname.get(fld, '?')) for i, fld in enumerate(nt_fields)]
    stored = set()
    from ..resolve import unique_def
    for n in ast.walk(loop):
        if isinstance(n, ast.Call) and isinstance(n.func, ast.Attribute) and n.func.attr == 'append':
            recv = n.func.value
            d = unique_def(v, recv.id, n) if isinstance(recv, ast.Name) else None
            if isinstance(d, ast.IfExp) and isinstance(d.body, ast.Name) and isinstance(d.orelse, ast.Name):
                stored |= {d.body.id, d.orelse.id}          # an alias that selects one of two buckets
            else:
                stored.add(norm(recv))
        if isinstance(n, ast.Assign) and isinstance(n.targets[0], ast.Name) and norm(n.value) == ev:
            stored.add(n.targets[0].id)
    rep.add(f'{fi.fq}: every bucket that is filled is returned', fi.loc(), 'ok' if stored <= set(buckets) and len(buckets) == 4 else 'undecided',
            f'filled {sorted(stored)}, returned {buckets}')
    for qn, discard_ok in (('_edge_markers', set()), ('_attr_markers', {0})):
        f2 = ctx.repo.func('penman.transform', qn)
        unp = None
        for n in walk_local(f2.node):
            if isinstance(n, ast.Assign) and isinstance(n.targets[0], ast.Tuple) and isinstance(n.value, ast.Call) \
                    and norm(n.value.func) == '_reified_markers':
                unp = [norm(e) for e in n.targets[0].elts]
        if unp is None and len(nt_fields) == 4:
            # markers = _reified_markers(epidata);  markers.push, markers.pops, ...: a field that is never read counts as discarded
            for n in walk_local(f2.node):
                if isinstance(n, ast.Assign) and len(n.targets) == 1 and isinstance(n.targets[0], ast.Name) and isinstance(n.value, ast.Call) \
                        and norm(n.value.func) == '_reified_markers':
                    mv_ = n.targets[0].id
                    reads_ = {x.attr for x in walk_local(f2.node) if isinstance(x, ast.Attribute) and norm(x.value) == mv_ and isinstance(x.ctx, ast.Load)}
                    whole_ = [x for x in walk_local(f2.node) if isinstance(x, ast.Name) and x.id == mv_ and isinstance(x.ctx, ast.Load)
                              and not isinstance(ctx.repo.parent_map(f2.node).get(id(x)), ast.Attribute)]
                    if not whole_:
                        unp = [f'{mv_}.{fld}' if fld in reads_ else '_' for fld in nt_fields]
        if unp is None or len(unp) != 4:
            raise AnalysisError(f'{f2.fq}: does not unpack the four buckets of _reified_markers')
        for i, nm in enumerate(unp):
            if nm == '_':
                rep.add(f'{f2.fq}: bucket {buckets[i] if i < len(buckets) else i} is discarded', f2.loc(),
                        'exception' if i in discard_ok else 'violation',
                        'attribute reification has no nested node to open: the Push of an attribute triple cannot exist' if i in discard_ok
                        else 'markers of this kind are silently lost')
                continue
            pm2 = ctx.repo.parent_map(f2.node)
            used = sum(1 for n in walk_local(f2.node) if isinstance(n, (ast.Name, ast.Attribute)) and norm(n) == nm and isinstance(n.ctx, ast.Load)
                       and not isinstance(pm2.get(id(n)), (ast.If, ast.While, ast.BoolOp, ast.UnaryOp, ast.Compare)))      # a mere test does not carry it over
            # where the bucket is handed on (append / extend / returned / aliased), the only admissible condition is "the bucket is not empty"
            from ..resolve import facts_ex as _fx
            extra = None
            for n in walk_local(f2.node):
                if isinstance(n, ast.Call) and isinstance(n.func, ast.Attribute) and n.func.attr in ('append', 'extend', 'insert') and n.args and norm(n.args[-1]) == nm:
                    fld_ = nm.split('.', 1)[1] if '.' in nm else None
                    conds = [(f, pol) for f, pol in _fx(ctx, f2, n) if not (f == nm and pol) and f not in (f'{nm} is not None', f'{nm} is None', f'len({nm})', f'len({nm}) > 0')
                             and not (fld_ and pol and f.startswith('_reified_markers(') and f.endswith(f').{fld_}'))]
                    if conds:
                        extra = (n, conds)
            if extra and used:
                n, conds = extra
                rep.violation(f'{f2.fq}: bucket {nm} is carried over', f2.loc(n), f'`{norm(n)[:50]}` hands the bucket on only when {[c for c, _ in conds][:2]} '
                              f'{"holds" if conds[0][1] else "does not hold"}: in the other case the markers of this kind are dropped (a Push that is lost means the nested node is no '
                              f'longer opened where the text opened it, and indicate_branches misses it)')
                continue
            rep.add(f'{f2.fq}: bucket {nm} is carried over', f2.loc(), 'ok' if used else 'violation',
                    '' if used else f'`{nm}` is unpacked from _reified_markers but never read afterwards: markers of this kind are silently lost '
                                    f'when the triple is replaced')
    return rep


@rule('R38', 'a node enters the dereification agenda only if it is not the top, not referenced, has exactly two relations and a dereifiable concept')
def r38(ctx: Ctx) -> RuleReport:
    from ..resolve import facts_ex
    rep = RuleReport('R38', r38.title, floor=5)
    fi = ctx.repo.func('penman.transform', '_dereify_agenda')
    gp = fi.positional[0]
    cfg = CFG(fi.node)
    pm = ctx.repo.parent_map(fi.node)
    stores = [n for n in walk_local(fi.node) if isinstance(n, ast.Assign) and isinstance(n.targets[0], ast.Subscript)
              and norm(n.targets[0].value) == 'agenda']
    if len(stores) != 1:
        raise AnalysisError('_dereify_agenda: expected one store into agenda')
    st = stores[0]
    var = norm(st.targets[0].slice)
    facts = facts_ex(ctx, fi, st)
    # the candidates may come out of a local generator that applies the checks:  for var, ... in _candidates(g, model): agenda[var] = ...
    if not any(f.startswith(f'{var} not in ') or f.startswith(f'{var} in ') for f, _ in facts):
        for lp in [a for a in _ancestors(pm, st) if isinstance(a, ast.For) and isinstance(a.iter, ast.Call)]:
            gens = [t.func for t in ctx.cg.resolve_call(lp.iter, fi) if t.kind == 'func' and t.func.module.name == fi.module.name
                    and any(isinstance(x, ast.Yield) for x in walk_local(t.func.node))]
            tnames = [norm(e) for e in lp.target.elts] if isinstance(lp.target, ast.Tuple) else []
            if len(gens) == 1 and var in tnames:
                gen = gens[0]
                ys = [x for x in walk_local(gen.node) if isinstance(x, ast.Yield) and isinstance(x.value, ast.Tuple) and len(x.value.elts) == len(tnames)]
                garg = [i for i, a in enumerate(lp.iter.args) if norm(a) == gp]
                if len(ys) == 1 and garg:
                    ypm = ctx.repo.parent_map(gen.node)
                    yst = ys[0]
                    while not isinstance(yst, ast.stmt):
                        yst = ypm[id(yst)]
                    var = norm(ys[0].value.elts[tnames.index(var)])
                    fi, st, gp = gen, yst, gen.positional[garg[0]]
                    cfg = CFG(fi.node)
                    pm = ctx.repo.parent_map(fi.node)
                    facts = facts_ex(ctx, fi, st)
                    break
    fx = None
    for f, pol in facts:
        if (f.startswith(f'{var} not in ') and pol) or (f.startswith(f'{var} in ') and not pol):
            cand = f.split(' in ', 1)[1]
            if cand.isidentifier() and cand != 'agenda':
                fx = cand
    key1 = f'{fi.fq}: agenda entry requires: not fixed (not the top, not referenced elsewhere)'
    if fx is None:
        # a set that is filled but never consulted is positive evidence that the test was lost
        for nm in sorted({n.func.value.id for n in walk_local(fi.node) if isinstance(n, ast.Call) and isinstance(n.func, ast.Attribute)
                          and n.func.attr == 'add' and isinstance(n.func.value, ast.Name)}):
            reads = [x for x in walk_local(fi.node) if isinstance(x, ast.Name) and x.id == nm and isinstance(x.ctx, ast.Load)
                     and not (isinstance(pm.get(id(x)), ast.Attribute) and pm[id(x)].attr in ('add', 'update', 'discard'))]
            if not reads:
                rep.violation(key1, fi.loc(st), f'the set `{nm}` is filled but never consulted, and the agenda store is guarded only by '
                              f'{sorted(f for f, p in facts if p)}: the top, or a node that other edges point to, can be collapsed')
                return rep
        rep.undecided(key1, fi.loc(st), f'guards present: {sorted(f for f, p in facts if p)}')
        return rep
    rep.ok(key1, fi.loc(st), f'{var} not in {fx}')
    ok2 = any((pol and f.startswith('len(') and f.endswith('== 2')) or (not pol and f.startswith('len(') and f.endswith('!= 2')) for f, pol in facts)
    ok3 = any(pol and 'is_concept_dereifiable(' in f for f, pol in facts)
    for nm, good in (('has exactly two non-instance relations', ok2), ('its concept is dereifiable', ok3)):
        rep.add(f'{fi.fq}: agenda entry requires: {nm}', fi.loc(st), 'ok' if good else 'undecided',
                '' if good else f'guards present: {sorted(f for f, p in facts if p)}')
    # the per-node collection whose length is tested keeps every relation (a list), not one per role
    cname = None
    for f, pol in facts:
        m = re.match(r'len\((\w+)(?:\.get\(|\[)', f)
        if m and ((pol and f.endswith('== 2')) or (not pol and f.endswith('!= 2'))):
            cname = m.group(1)
    if cname:
        keyc = f'{fi.fq}: the relations of a node are collected without loss (two relations with the same role count as two)'
        bad_store = None
        good_store = False
        for n in walk_local(fi.node):
            if isinstance(n, ast.Assign) and isinstance(n.targets[0], ast.Subscript):
                t = n.targets[0]
                inner = t.value
                # X[var][k] = triple   /   X.setdefault(var, {})[k] = triple
                if (isinstance(inner, ast.Subscript) and norm(inner.value) == cname) or (
                        isinstance(inner, ast.Call) and isinstance(inner.func, ast.Attribute) and inner.func.attr == 'setdefault' and norm(inner.func.value) == cname):
                    bad_store = n
                if norm(t.value) == cname and isinstance(n.value, ast.List):
                    good_store = True
            if isinstance(n, ast.Call) and isinstance(n.func, ast.Attribute) and n.func.attr == 'append':
                r = n.func.value
                if (isinstance(r, ast.Subscript) and norm(r.value) == cname) or (
                        isinstance(r, ast.Call) and isinstance(r.func, ast.Attribute) and r.func.attr == 'setdefault' and norm(r.func.value) == cname):
                    good_store = True
        for h in [x for x in ctx.cg.callees(fi) if x.module.name == fi.module.name]:
            for n in walk_local(h.node):
                if isinstance(n, ast.Call) and isinstance(n.func, ast.Attribute) and n.func.attr == 'append' and isinstance(n.func.value, (ast.Subscript, ast.Call)):
                    good_store = True
        if bad_store is not None:
            rep.violation(keyc, fi.loc(bad_store), f'`{norm(bad_store)[:70]}` keys the relations of a node by a second index: two relations that share it '
                          f'overwrite each other, so a node with three relations can look as if it had exactly two and is collapsed, dropping a triple')
        else:
            rep.add(keyc, fi.loc(), 'ok' if good_store else 'undecided')
    # everything that ever flows into the fixed set (followed into a local helper that builds and returns it)
    def feeds_of(fi, fx, gp, depth=0):
        feeds: List[Tuple[str, ast.AST, str]] = []      # (kind, node, detail); kind: top | targets | bad | unknown | empty
        loops = [n for n in walk_local(fi.node) if isinstance(n, ast.For) and norm(n.iter) == f'{gp}.triples']

        def slot2_names(loop: ast.For) -> Tuple[Set[str], Set[str]]:
            roles, tgts = set(), set()
            if isinstance(loop.target, ast.Tuple) and len(loop.target.elts) == 3:
                roles.add(norm(loop.target.elts[1]))
                tgts.add(norm(loop.target.elts[2]))
            elif isinstance(loop.target, ast.Name):
                roles.add(f'{loop.target.id}[1]')
                tgts.add(f'{loop.target.id}[2]')
                for n in ast.walk(loop):
                    if isinstance(n, ast.Assign) and isinstance(n.targets[0], ast.Tuple) and len(n.targets[0].elts) == 3 and norm(n.value) == loop.target.id:
                        roles.add(norm(n.targets[0].elts[1]))
                        tgts.add(norm(n.targets[0].elts[2]))
            return roles, tgts

        def classify_value(v: ast.AST, at: ast.AST):
            for x in ast.walk(v):
                if isinstance(x, ast.Attribute) and x.attr == 'top' and norm(x.value) == gp:
                    feeds.append(('top', at, norm(v)[:50]))
            comps = [x for x in ast.walk(v) if isinstance(x, (ast.SetComp, ast.GeneratorExp, ast.ListComp))]
            for c in comps:
                g = c.generators[0]
                if norm(g.iter) == f'{gp}.triples' and isinstance(g.target, ast.Tuple) and len(g.target.elts) == 3 and len(c.generators) == 1:
                    role, tgt = norm(g.target.elts[1]), norm(g.target.elts[2])
                    conds = {norm(x) for x in g.ifs}
                    if norm(c.elt) == tgt and conds <= {f'{role} != CONCEPT_ROLE', f'CONCEPT_ROLE != {role}'} and conds:
                        feeds.append(('targets', at, norm(c)[:60]))
                    else:
                        feeds.append(('unknown', at, norm(c)[:60]))
                else:
                    feeds.append(('unknown', at, norm(c)[:60]))
            if not comps and not any(isinstance(x, ast.Attribute) and x.attr == 'top' for x in ast.walk(v)):
                empty = (isinstance(v, ast.Call) and norm(v.func) == 'set' and not v.args) or (isinstance(v, (ast.Set, ast.List)) and not v.elts)
                feeds.append(('empty' if empty else 'unknown', at, norm(v)[:50]))
        for n in walk_local(fi.node):
            if isinstance(n, (ast.Assign, ast.AnnAssign)) and n.value is not None:
                tg = n.targets[0] if isinstance(n, ast.Assign) else n.target
                if norm(tg) == fx:
                    classify_value(n.value, n)
            if isinstance(n, ast.AugAssign) and norm(n.target) == fx:
                classify_value(n.value, n)
            if isinstance(n, ast.Call) and isinstance(n.func, ast.Attribute) and norm(n.func.value) == fx:
                if n.func.attr == 'update' and n.args:
                    classify_value(n.args[0], n)
                elif n.func.attr == 'add' and n.args:
                    a = n.args[0]
                    while isinstance(a, ast.Call) and norm(a.func) in ('cast', 'typing.cast') and len(a.args) == 2:
                        a = a.args[1]
                    if isinstance(a, ast.Attribute) and a.attr == 'top' and norm(a.value) == gp:
                        feeds.append(('top', n, norm(n)))
                        continue
                    loop = next((l for l in loops if any(x is n for x in ast.walk(l))), None)
                    if loop is None:
                        feeds.append(('unknown', n, norm(n)))
                        continue
                    roles, tgts = slot2_names(loop)
                    if norm(a) not in tgts:
                        feeds.append(('unknown', n, norm(n)))
                        continue
                    af = facts_ex(ctx, fi, n)
                    allowed = {(f'{r} == CONCEPT_ROLE', False) for r in roles} | {(f'{r} != CONCEPT_ROLE', True) for r in roles} \
                        | {(f'CONCEPT_ROLE == {r}', False) for r in roles} | {(f'CONCEPT_ROLE != {r}', True) for r in roles}
                    extra = sorted(c for c in af if c not in allowed and not any(c in facts_ex(ctx, fi, l) for l in [loop]))
                    if not (af & allowed):
                        mentions_role = any(any(r in c for r in roles) for c, _ in af)
                        if not mentions_role:
                            feeds.append(('bad', n, f'{norm(n)} runs for every triple, the instance triples included: the CONCEPT of a node goes into the set of protected '
                                                   f'variables, so a collapsible relation node whose variable happens to be spelled like some concept (the placeholder "_" of a '
                                                   f'reified edge and a node "(b / _)") is never dereified - reify followed by dereify does not restore the graph'))
                        else:
                            feeds.append(('unknown', n, f'{norm(n)} is not restricted to non-instance triples'))
                    elif not extra:
                        feeds.append(('targets', n, norm(n)))
                    else:
                        # an extra condition that reads a collection the same loop is still filling depends on the order of the triples
                        filled = set()
                        for x in ast.walk(loop):
                            if isinstance(x, ast.Assign) and isinstance(x.targets[0], ast.Subscript) and isinstance(x.targets[0].value, ast.Name):
                                filled.add(x.targets[0].value.id)
                            if isinstance(x, ast.Call) and isinstance(x.func, ast.Attribute) and x.func.attr in ('add', 'append', 'setdefault') \
                                    and isinstance(x.func.value, ast.Name):
                                filled.add(x.func.value.id)
                        hit = [(c, p) for c, p in extra if any(isinstance(y, ast.Name) and y.id in filled - {fx} for y in ast.walk(ast.parse(c, mode='eval')))]
                        if hit:
                            feeds.append(('bad', n, f'{norm(n)} runs only when `{hit[0][0]}` is {hit[0][1]}, a test on a collection that this very loop is still '
                                                   f'filling: a target whose own triples come later in the list is not recorded, so a node that another '
                                                   f'edge points to can be dereified away'))
                        else:
                            feeds.append(('unknown', n, f'{norm(n)} additionally conditional on {extra}'))
        # the set may come out of a helper: `a, fixed, b = helper(g)`
        for n in walk_local(fi.node):
            if isinstance(n, ast.Assign) and isinstance(n.targets[0], ast.Tuple) and isinstance(n.value, ast.Call):
                names = [norm(e) for e in n.targets[0].elts]
                if fx in names:
                    hs = [t.func for t in ctx.cg.resolve_call(n.value, fi) if t.kind == 'func' and t.func.module.name == fi.module.name]
                    rets = [r for r in walk_local(hs[0].node) if isinstance(r, ast.Return)] if len(hs) == 1 else []
                    ok = False
                    if len(rets) == 1 and isinstance(rets[0].value, ast.Tuple) and len(rets[0].value.elts) == len(names) and depth < 2:
                        slot = rets[0].value.elts[names.index(fx)]
                        garg = [i for i, a in enumerate(n.value.args) if norm(a) == gp]
                        if isinstance(slot, ast.Name) and garg:
                            feeds += feeds_of(hs[0], slot.id, hs[0].positional[garg[0]], depth + 1)
                            ok = True
                    if not ok:
                        feeds.append(('unknown', n, norm(n)[:60]))
        return feeds
    feeds = feeds_of(fi, fx, gp)
    if not feeds:
        feeds = [('unknown', st, f'no definition of `{fx}` found')]
    kinds = {k for k, _, _ in feeds}
    listing = '; '.join(f'{k}: {d}' for k, _, d in feeds)
    for k, n, d in feeds:
        if k == 'bad':
            rep.violation(f'{fi.fq}: every target of a non-instance triple is recorded as referenced', fi.loc(n), d)
    closed = 'unknown' not in kinds and 'bad' not in kinds
    key = f'{fi.fq}: the set of fixed nodes contains the top'
    # whatever else is unknown about a feed, an expression that never reads `.top` cannot put the top into the set
    no_top_read = all('.top' not in norm(n) for _, n, _ in feeds) and all(not (isinstance(n, ast.Assign) and isinstance(n.targets[0], ast.Tuple)) for _, n, _ in feeds)
    if 'top' in kinds:
        rep.ok(key, fi.loc(), listing[:200])
    elif closed or no_top_read:
        rep.violation(key, fi.loc(), f'everything that flows into `{fx}` is [{listing}]: the top is never among it unless it is also some edge\'s '
                      f'target, so a top node that looks like a reified relation is collapsed and the graph loses its top')
    else:
        rep.undecided(key, fi.loc(), listing[:200])
    key = f'{fi.fq}: every target of a non-instance triple is recorded as referenced'
    if 'targets' in kinds:
        rep.ok(key, fi.loc(), listing[:200])
    elif closed:
        rep.violation(key, fi.loc(), f'everything that flows into `{fx}` is [{listing}]: targets of other edges are not recorded, so a node that is '
                      f'referenced elsewhere can be collapsed, leaving a dangling reference')
    elif 'bad' not in kinds:
        rep.undecided(key, fi.loc(), listing[:200])
    # and the agenda loop runs after the recording has finished
    sn = cfg.node_of(st)
    loops = [n for n in walk_local(fi.node) if isinstance(n, ast.For) and norm(n.iter) == f'{gp}.triples']
    scan = [cfg.node_of(l) for l in loops if any(k == 'targets' and any(x is n for x in ast.walk(l)) for k, n, _ in feeds)]
    if scan:
        rep.add(f'{fi.fq}: candidates are examined only after all triples were scanned', fi.loc(st),
                'ok' if all(ln not in cfg.reachable_from([sn]) for ln in scan) else 'undecided')
    return rep


# ---------------------------------------------------------------------------------------------
@rule('R48', 'a local cache is sound: everything a cached value depends on is determined by its key')
def r48(ctx: Ctx) -> RuleReport:
    rep = RuleReport('R48', r48.title, floor=0)
    n = 0
    for fi in ctx.repo.all_functions():
        stores = [s for s in walk_local(fi.node) if isinstance(s, ast.Assign) and isinstance(s.targets[0], ast.Subscript)
                  and isinstance(s.targets[0].value, ast.Name) and isinstance(s.targets[0].ctx, ast.Store)]
        if not stores:
            continue
        pm = None
        for s in stores:
            D = s.targets[0].value.id
            t = ctx.types.type_of(fi, s.targets[0].value)
            if not has(t, 'dict'):
                continue
            # is D read back by key in the same function inside a loop (or is it a parameter shared across recursion)?
            reads = [r for r in walk_local(fi.node)
                     if (isinstance(r, ast.Subscript) and isinstance(r.ctx, ast.Load) and isinstance(r.value, ast.Name) and r.value.id == D)
                     or (isinstance(r, ast.Call) and isinstance(r.func, ast.Attribute) and r.func.attr == 'get'
                         and isinstance(r.func.value, ast.Name) and r.func.value.id == D)]
            if pm is None:
                pm = ctx.repo.parent_map(fi.node)
            in_loop = any(isinstance(a, (ast.For, ast.While)) for a in _ancestors(pm, s))
            if not reads or not (in_loop or D in fi.params):
                continue
            # same key expression used for the read?  (a cache: read D[K] else compute and store D[K])
            K = s.targets[0].slice
            krd = [r for r in reads if norm(r.slice if isinstance(r, ast.Subscript) else r.args[0]) == norm(K)]
            # a cache: the value read under the key is bound to the same name the computed value is stored from
            #   x = D.get(K) / x = D[K] ... x = compute(...); D[K] = x
            if not isinstance(s.value, ast.Name):
                continue
            xname = s.value.id
            bound = [r for r in krd if isinstance(pm.get(id(r)), (ast.Assign, ast.AnnAssign, ast.Return))
                     and (isinstance(pm[id(r)], ast.Return) or xname in assigned_names(pm[id(r)]))]
            if not bound:
                continue
            n += 1
            # dependency closure of the key
            knames = {x.id for x in ast.walk(K) if isinstance(x, ast.Name)}
            vnames = _value_deps(ctx, fi, s.value)
            invariant = set(fi.params) - _rebound(fi)
            loopvars = set()
            for a in _ancestors(pm, s):
                if isinstance(a, ast.For):
                    loopvars |= {x.id for x in ast.walk(a.target) if isinstance(x, ast.Name)}
            # names derived (by single assignments) from the key names only are fine
            derived = _derived_from(ctx, fi, knames)
            free = {v for v in vnames if v not in derived and v not in knames and v not in invariant and v != D}
            # values that vary per iteration but are not functions of the key make the cache unsound
            bad = {v for v in free if v in loopvars or _varies_in_loop(ctx, fi, pm, s, v)}
            key = f'{fi.module.name}:{fi.qualname}: cache {D}[{norm(K)}] = {norm(s.value)[:50]}'
            rep.add(key, fi.loc(s), 'violation' if bad else 'ok',
                    f'the cached value depends on {sorted(bad)}, which the key {norm(K)} does not determine: a later hit '
                    f'returns the value computed for a different {sorted(bad)[0]}' if bad else '')
    rep.analysed['caches'] = n
    return rep


def _ancestors(pm, node):
    n = node
    while id(n) in pm:
        n = pm[id(n)]
        yield n


def _rebound(fi: FuncInfo) -> Set[str]:
    out = set()
    for n in walk_local(fi.node):
        if isinstance(n, (ast.Assign, ast.AugAssign, ast.AnnAssign, ast.For)):
            out |= assigned_names(n)
    return out


def _value_deps(ctx: Ctx, fi: FuncInfo, e: ast.AST, depth: int = 0) -> Set[str]:
    out = set()
    for x in ast.walk(e):
        if isinstance(x, ast.Name) and isinstance(x.ctx, ast.Load):
            out.add(x.id)
            if depth < 4:
                vals = ctx.cg.local_assigns(fi).get(x.id, [])
                for v in vals:
                    if isinstance(v, ast.AST) and not isinstance(v, (ast.Import, ast.ImportFrom)):
                        out |= _value_deps(ctx, fi, v, depth + 1)
    return out


def _derived_from(ctx: Ctx, fi: FuncInfo, roots: Set[str]) -> Set[str]:
    """Names all of whose definitions are expressions over `roots` (transitively) or unpackings of them."""
    derived = set(roots)
    changed = True
    la = ctx.cg.local_assigns(fi)
    while changed:
        changed = False
        for nm, vals in la.items():
            if nm in derived or not vals:
                continue
            if all(isinstance(v, ast.AST) and not isinstance(v, (ast.Import, ast.ImportFrom)) and
                   {x.id for x in ast.walk(v) if isinstance(x, ast.Name) and isinstance(x.ctx, ast.Load)
                    and x.id not in fi.module.functions and x.id not in fi.module.imports} <= derived | set(fi.params)
                   for v in vals):
                derived.add(nm)
                changed = True
        # tuple unpacking a, b, c = f(root)
        for n in walk_local(fi.node):
            if isinstance(n, ast.Assign) and isinstance(n.targets[0], ast.Tuple):
                srcs = {x.id for x in ast.walk(n.value) if isinstance(x, ast.Name) and isinstance(x.ctx, ast.Load)}
                srcs -= set(fi.module.functions) | set(fi.module.imports)
                if srcs and srcs <= derived | set(fi.params) and srcs & derived:
                    for e in n.targets[0].elts:
                        if isinstance(e, ast.Name) and e.id not in derived and e.id not in roots:
                            # an unpacked piece is a function of the unpacked value, but if the key is only one
                            # piece of it (role, tilde, alignment = raw.partition) the siblings are NOT functions of the key
                            pass
    return derived


def _varies_in_loop(ctx: Ctx, fi: FuncInfo, pm, store, name: str) -> bool:
    """Is `name` (re)bound inside a loop that encloses the cache store?"""
    for a in _ancestors(pm, store):
        if isinstance(a, (ast.For, ast.While)):
            for n in ast.walk(a):
                if isinstance(n, (ast.Assign, ast.AugAssign, ast.AnnAssign)) and name in assigned_names(n):
                    return True
    return False


# ---------------------------------------------------------------------------------------------
@rule('R92', 'indicate_branches writes, directly in front of every triple that opens a nested node, one TOP triple from the enclosing node to the nested one')
def r92(ctx: Ctx) -> RuleReport:
    from ..resolve import facts_ex, expand
    rep = RuleReport('R92', r92.title, floor=3)
    fi = ctx.repo.func('penman.transform', 'indicate_branches')
    cfg = CFG(fi.node)
    pm = ctx.repo.parent_map(fi.node)
    loops = [n for n in walk_local(fi.node) if isinstance(n, ast.For) and norm(n.iter).endswith('.triples')]
    if not loops:
        # the loop pairs the triples with the answers of a diagnostic: node_contexts() says None from the first mismatch of the markers on
        for n in walk_local(fi.node):
            if isinstance(n, ast.For) and isinstance(n.iter, ast.Call) and norm(n.iter.func) == 'zip' and isinstance(n.target, ast.Tuple):
                for a_, t_ in zip(n.iter.args, n.target.elts):
                    if isinstance(a_, ast.Call) and norm(a_.func).endswith('node_contexts') and isinstance(t_, ast.Name):
                        used = [x for x in ast.walk(n) if isinstance(x, ast.Tuple) and len(x.elts) == 3 and norm(x.elts[1]).endswith('.top_role')
                                and any(isinstance(y, ast.Name) and y.id == t_.id for y in ast.walk(x))]
                        if used:
                            rep.violation(f'{fi.fq}: the TOP triple names the enclosing node and the nested node', fi.loc(used[0]),
                                          f'`{norm(used[0])}` takes a node from node_contexts(): that diagnostic answers None for every triple after the first place where the '
                                          f'Push/POP markers do not nest perfectly (after reify_edges or dereify_edges, or on a hand-built graph), so the inserted triple is '
                                          f'(None, :TOP, x) - a source that is no variable, and the result does not encode or decode to itself')
                            return rep
    if len(loops) != 1 or not isinstance(loops[0].target, ast.Name):
        rep.undecided(f'{fi.fq}: one loop `for t in g.triples`', fi.loc(), f'{len(loops)} loops')
        return rep
    loop = loops[0]
    tv = loop.target.id
    head = cfg.node_of(loop)
    apps = [n for n in ast.walk(loop) if isinstance(n, ast.Call) and isinstance(n.func, ast.Attribute) and n.func.attr in ('append', 'insert', 'extend') and n.args]
    outs = {norm(a.func.value) for a in apps}
    if len(outs) != 1:
        rep.undecided(f'{fi.fq}: one output list', fi.loc(loop), f'{sorted(outs)}')
        return rep
    keep = [a for a in apps if norm(a.args[-1]) == tv]
    tops = [a for a in apps if isinstance(a.args[-1], ast.Tuple) and len(a.args[-1].elts) == 3 and norm(a.args[-1].elts[1]).endswith('.top_role')]
    other = [a for a in apps if a not in keep and a not in tops]
    # every triple is kept, once, at the end of what is written for it
    key = f'{fi.fq}: every triple of the graph is written again, after its TOP triple'
    if len(keep) != 1 or keep[0].func.attr != 'append':
        rep.add(key, fi.loc(loop), 'violation' if keep and keep[0].func.attr == 'insert' else 'undecided',
                f'`{norm(keep[0])[:50]}` puts the triple in front of everything written so far: the order of the triples (and with it the layout) is reversed' if keep else 'no append of the loop variable')
    else:
        kn = owner_node(cfg, pm, keep[0])
        skip = cfg.path_avoiding([(head, 'T')], {head, cfg.exit}, lambda nd: nd.id == kn)
        rep.add(key, fi.loc(keep[0]), 'violation' if skip else 'ok', 'an iteration can end without writing the triple: ' + ' -> '.join(repr(cfg.nodes[x]) for x in skip[-3:])[:150] if skip else '')
    if other:
        rep.undecided(f'{fi.fq}: only TOP triples and the original triples are written', fi.loc(other[0]), norm(other[0])[:60])
    if not tops:
        rep.undecided(f'{fi.fq}: TOP triples are written', fi.loc(loop), 'no append of (x, model.top_role, y)')
        return rep
    seen_dirs = set()
    unknown_dir = False
    for a in tops:
        tup = a.args[-1]
        s0, s2 = norm(tup.elts[0]), norm(tup.elts[2])
        fx = facts_ex(ctx, fi, a)
        eq = None
        # names for the slots of the loop triple (source, _, target = t) and for the pushed variable (x = get_pushed_variable(g, t))
        slotname = {f'{tv}[0]': 0, f'{tv}[2]': 2}
        for n_ in ast.walk(loop):
            if isinstance(n_, ast.Assign) and isinstance(n_.targets[0], ast.Tuple) and len(n_.targets[0].elts) == 3 and norm(n_.value) == tv:
                for k_ in (0, 2):
                    if isinstance(n_.targets[0].elts[k_], ast.Name):
                        slotname[n_.targets[0].elts[k_].id] = k_
        pushed_names = {nm for nm, vals in ctx.cg.local_assigns(fi).items() if len(vals) == 1 and isinstance(vals[0], ast.Call)
                        and norm(vals[0].func).endswith('get_pushed_variable')}
        s0, s2 = (f'{tv}[{slotname[x]}]' if x in slotname else x for x in (s0, s2))
        for fsrc, pol in fx:
            m_ = fsrc.replace(' ', '')
            for k in (0, 2):
                if pol and (m_.endswith(f'.variable=={tv}[{k}]') or m_.startswith(f'{tv}[{k}]==') and m_.endswith('.variable')):
                    eq = k
            if pol and '==' in m_ and eq is None:
                l_, r_ = m_.split('==', 1)
                for x_, y_ in ((l_, r_), (r_, l_)):
                    if x_ in pushed_names and y_ in slotname:
                        eq = slotname[y_]
                        known = any((f2.replace(' ', '') in (f'{x_}isnotNone', x_) and p2) or (f2.replace(' ', '') in (f'{x_}isNone', f'not{x_}') and not p2) for f2, p2 in fx)
                        if not known and slotname[y_] == 2:         # a source is never None, a target can be
                            rep.violation(f'{fi.fq}: `{norm(a)[:60]}` is written only for a triple that carries a Push', fi.loc(a),
                                          f'`{fsrc}` is also true when `{x_}` is None (the triple has no Push marker) and the slot is None too - the instance triple of a node without '
                                          f'concept, a relation without target: a TOP triple to/from None is written for a triple that opens no node')
        if eq is None:
            # the complement: a Push stored on a triple names one of its two ends (interpret and the transformations only ever write
            # Push(source) or Push(target) there), so "is not the one" means "is the other"
            for fsrc, pol in fx:
                m_ = fsrc.replace(' ', '')
                for k in (0, 2):
                    if not pol and (m_.endswith(f'.variable=={tv}[{k}]') or m_.startswith(f'{tv}[{k}]==') and m_.endswith('.variable')):
                        eq = 2 - k
        key = f'{fi.fq}: `{norm(a)[:60]}` names the enclosing node first and the nested node last'
        if a.func.attr != 'append':
            rep.violation(key, fi.loc(a), f'`{a.func.attr}` does not put the TOP triple directly in front of the triple it belongs to')
            continue
        if eq is None:
            unknown_dir = True
            rep.undecided(key, fi.loc(a), f'not under a test `push.variable == {tv}[0]` or `== {tv}[2]` (facts: {sorted(f for f, p in fx if p)[:3]})')
            continue
        seen_dirs.add(eq)
        want = (f'{tv}[{2 - eq}]', f'{tv}[{eq}]')
        if (s0, s2) == want:
            rep.ok(key, fi.loc(a), f'pushed variable is {tv}[{eq}]')
        else:
            rep.violation(key, fi.loc(a), f'the nested node is {tv}[{eq}] here (the Push marker names it), so the TOP triple must be ({want[0]}, TOP, {want[1]}); it is ({s0}, TOP, {s2}): '
                          f'removing the TOP triples no longer gives back the graph, and the TOP relation points the wrong way')
        # written before the triple itself
        if keep:
            an, kn = owner_node(cfg, pm, a), owner_node(cfg, pm, keep[0])
            after = kn in cfg.reachable_from([an]) and an not in cfg.reachable_from([m for m, _ in cfg.succ[kn] if m != head])
            if not after and an in cfg.reachable_from([m for m, lab in cfg.succ[kn] if m != head]):
                rep.violation(key + ' (position)', fi.loc(a), 'the TOP triple is written after the triple that opens the nested node')
    for k, what in ((2, 'a nested node opened by a plain branch (Push names the target)'), (0, 'a nested node opened by an inverted branch (Push names the source)')):
        if k not in seen_dirs and unknown_dir:
            rep.undecided(f'{fi.fq}: a TOP triple is written for {what}', fi.loc(loop), 'a TOP triple is written under a condition this rule does not read')
        elif k not in seen_dirs:
            rep.violation(f'{fi.fq}: a TOP triple is written for {what}', fi.loc(loop), f'no TOP triple is written under `push.variable == {tv}[{k}]`: such nested nodes get no TOP triple, so '
                          f'"exactly one top-role triple per nested node" fails')
    return rep


# ---------------------------------------------------------------------------------------------
@rule('R94', 'a transformation that introduces a node gives every new triple its marker list: Push on the triple that opens the node (POP on its last triple where the place is known)')
def r94(ctx: Ctx) -> RuleReport:
    from ..resolve import expand, facts_ex
    rep = RuleReport('R94', r94.title, floor=4)
    for qn in ('reify_edges', 'reify_attributes'):
        fi = ctx.repo.func('penman.transform', qn)
        loops = [n for n in walk_local(fi.node) if isinstance(n, ast.For) and norm(n.iter).endswith('.triples')]
        if len(loops) != 1:
            rep.undecided(f'{fi.fq}: one loop over g.triples', fi.loc(), f'{len(loops)} loops')
            continue
        loop = loops[0]
        # the triples written for a rewritten triple: <list>.extend((a, b, c)) / several appends with names
        ext = [n for n in ast.walk(loop) if isinstance(n, ast.Call) and isinstance(n.func, ast.Attribute) and n.func.attr == 'extend' and n.args
               and isinstance(n.args[0], (ast.Tuple, ast.List)) and all(isinstance(e, ast.Name) for e in n.args[0].elts)]
        if len(ext) != 1:
            rep.undecided(f'{fi.fq}: the replacement triples are written with one extend((...))', fi.loc(loop), f'{len(ext)} such calls')
            continue
        new_names = [e.id for e in ext[0].args[0].elts]
        stores = {}
        for n in ast.walk(loop):
            if isinstance(n, ast.Assign) and isinstance(n.targets[0], ast.Subscript) and isinstance(n.targets[0].slice, ast.Name) \
                    and 'epidata' in norm(n.targets[0].value):
                stores.setdefault(n.targets[0].slice.id, []).append(n)
        for nm in new_names:
            key = f'{fi.fq}: the new triple `{nm}` gets a marker list'
            if nm in stores:
                rep.ok(key, fi.loc(stores[nm][0]), norm(stores[nm][0].value)[:50])
            else:
                rep.violation(key, fi.loc(ext[0]), f'`{nm}` is written into the graph but nothing is stored for it in the marker map: the Push / POP / alignment markers that belong to it are lost '
                              f'(the new node is then laid out where the improvised search puts it, and the alignments of the original triple disappear)')
        # which of the new triples opens the new node: the one whose marker list contains Push(<var>)
        def parts_of(e):
            e = expand(ctx, fi, e, loop, pure_only=False) if isinstance(e, ast.Name) else e
            return _concat_parts(e)
        pushes = []
        pops = []
        for nm, sts in stores.items():
            for st in sts:
                for part in parts_of(st.value):
                    if isinstance(part, (ast.List, ast.Tuple)):
                        for e in part.elts:
                            if isinstance(e, ast.Call) and norm(e.func) == 'Push':
                                pushes.append((nm, st))
                            if norm(e) in ('POP', 'Pop()'):
                                pops.append((nm, st))
        key = f'{fi.fq}: exactly one of the new triples carries Push(<new variable>)'
        if len(pushes) == 1:
            rep.ok(key, fi.loc(pushes[0][1]), pushes[0][0])
        elif not pushes:
            rep.violation(key, fi.loc(loop), 'no marker list of a new triple contains Push(var): the new node is not opened at the triple that points to it, so the text shows a bare variable there and the '
                          'node is written somewhere else (or the graph fails to encode)')
        else:
            rep.violation(key, fi.loc(pushes[1][1]), f'{len(pushes)} new triples carry a Push for the new node: the node is opened twice')
        if qn == 'reify_attributes':
            key = f'{fi.fq}: the instance triple of the new node carries POP (the node has no other triple)'
            if len(pops) == 1:
                rep.ok(key, fi.loc(pops[0][1]), pops[0][0])
            elif not pops:
                rep.violation(key, fi.loc(loop), 'no marker list of a new triple contains POP: the new one-triple node is never closed, so the triples that follow are written inside it')
            else:
                rep.undecided(key, fi.loc(loop), f'{len(pops)} POPs')
        if qn == 'reify_edges' and len(new_names) == 3:
            # the outer two of the three triples change places when the text wrote the edge inverted
            a_, _, c_ = new_names
            swaps = [n for n in ast.walk(loop) if isinstance(n, ast.Assign) and isinstance(n.targets[0], ast.Tuple) and isinstance(n.value, ast.Tuple)
                     and sorted(norm(e) for e in n.targets[0].elts) == sorted([a_, c_])]
            key = f'{fi.fq}: the triple that points into the new node and the one that leaves it change places when the edge appears inverted'
            real = [n for n in swaps if [norm(e) for e in n.value.elts] == [norm(e) for e in n.targets[0].elts][::-1]]
            fake = [n for n in swaps if n not in real]
            if real:
                fx = facts_ex(ctx, fi, real[0])
                guard = [f for f, pol in fx if pol and f.startswith('appears_inverted(')]
                nguard = [f for f, pol in fx if not pol and f.startswith('appears_inverted(')]
                if guard:
                    rep.ok(key, fi.loc(real[0]), guard[0])
                    # ... and before their marker lists are stored under them: a store made before the exchange files the markers under the other triple
                    c3 = CFG(fi.node)
                    pm3 = ctx.repo.parent_map(fi.node)
                    sn, head3 = owner_node(c3, pm3, real[0]), c3.node_of(loop)
                    early = []
                    for st_ in ast.walk(loop):
                        if isinstance(st_, ast.Assign) and isinstance(st_.targets[0], ast.Subscript) and isinstance(st_.targets[0].slice, ast.Name) \
                                and st_.targets[0].slice.id in (a_, c_):
                            if c3.path_avoiding([(c3.node_of(st_), None)], {sn}, lambda nd: nd.id == head3):
                                early.append(st_)
                    k2 = f'{fi.fq}: the marker lists are filed after the two triples have changed places'
                    if early:
                        rep.violation(k2, fi.loc(early[0]), f'`{norm(early[0])[:60]}` runs before the exchange `{norm(real[0])}`: for an edge that appears inverted the markers '
                                      f'(the Push of the new node, the original Push) are filed under the triple on the far side, while the list order is still exchanged - '
                                      f'the new node is opened by a triple that does not mention it first, and indicate_branches / configure no longer see one nested node per Push')
                    else:
                        rep.ok(k2, fi.loc(real[0]))
                elif nguard:
                    rep.violation(key, fi.loc(real[0]), 'the two triples change places exactly when the edge does NOT appear inverted')
                else:
                    c2 = CFG(fi.node)
                    dead = c2.node_of(real[0]) not in c2.reachable_from([c2.entry])
                    rep.violation(key, fi.loc(real[0]), 'the statement that lets the two triples change places can never run: an edge written inverted is reified as if it were written forward'
                                  if dead else 'the two triples always change places, also for an edge the text wrote forward')
            elif fake:
                rep.violation(key, fi.loc(fake[0]), f'`{norm(fake[0])}` assigns the two names to themselves: an edge written inverted is reified as if it were written forward, so the new node is '
                              f'opened from the wrong side and dereifying the encoded result does not give the text back')
            else:
                only_def = all(len([x for x in ctx.cg.local_assigns(fi).get(nm, []) if isinstance(x, ast.AST)]) <= 1 for nm in (a_, c_))
                rep.add(key, fi.loc(ext[0]), 'violation' if only_def else 'undecided',
                        'the three triples are written in the order Model.reify returns them whatever the layout says: an edge written inverted is reified as if it were written forward')
        # triples that are not rewritten are copied in place (append, not insert)
        keeps = [n for n in ast.walk(loop) if isinstance(n, ast.Call) and isinstance(n.func, ast.Attribute) and n.func.attr in ('append', 'insert') and n.args
                 and isinstance(n.args[-1], ast.Name) and n.args[-1].id == (loop.target.id if isinstance(loop.target, ast.Name) else '')]
        for k in keeps:
            rep.add(f'{fi.fq}: an unchanged triple keeps its place', fi.loc(k), 'ok' if k.func.attr == 'append' else 'violation',
                    '' if k.func.attr == 'append' else f'`{norm(k)[:40]}` moves the triple to the front: the triple order, and with it the layout of the encoded text, is scrambled')
    return rep


# ---------------------------------------------------------------------------------------------
@rule('R137', 'when a relation node is collapsed, its two relations change places exactly when the second one is the triple that OPENS the node (its Push names the node)')
def r137(ctx: Ctx) -> RuleReport:
    """The decision must be read off the Push marker: get_pushed_variable(g, <second>) == <node variable>.  appears_inverted() agrees with that for a
    triple that carries a Push, but is also true for a Push-less triple whose target is the current node context - then the two relations are
    exchanged although the node was opened by the first, and the dereified triple inherits the Push of the node that has just been removed."""
    from ..resolve import facts_ex, local_callees
    rep = RuleReport('R137', r137.title, floor=1)
    root = ctx.repo.func('penman.transform', '_dereify_agenda')
    key = f'{root.fq}: the order of the two relations handed to Model.dereify is decided by which of them pushes the node'
    found = False
    # the order in which the two relations are handed to Model.dereify names them: (first, second)
    ref = None
    for fi in [f for f in local_callees(ctx, root, depth=1) if f.module.name == root.module.name]:
        for c in walk_local(fi.node):
            if isinstance(c, ast.Call) and isinstance(c.func, ast.Attribute) and c.func.attr == 'dereify' and len(c.args) == 3 and all(isinstance(a, ast.Name) for a in c.args[1:]):
                ref = (c.args[1].id, c.args[2].id)
    for fi in [f for f in local_callees(ctx, root, depth=1) if f.module.name == root.module.name]:
        pair_assigns = [n for n in walk_local(fi.node) if isinstance(n, ast.Assign) and len(n.targets) == 1 and isinstance(n.targets[0], ast.Tuple)
                        and len(n.targets[0].elts) == 2 and all(isinstance(e, ast.Name) for e in n.targets[0].elts)]
        for n in pair_assigns:
            tg = [e.id for e in n.targets[0].elts]
            # first, second = (b, a) if <test> else (a, b)
            v_ = n.value
            if isinstance(v_, ast.IfExp) and isinstance(v_.body, ast.Tuple) and isinstance(v_.orelse, ast.Tuple) and len(v_.body.elts) == 2 \
                    and [norm(e) for e in v_.body.elts] == [norm(e) for e in v_.orelse.elts][::-1] and ref is not None and tg == list(ref):
                t0 = norm(v_.test).replace(' ', '')
                plain = [norm(e) for e in v_.orelse.elts]          # the order when the test fails
                d_ = [x for x in pair_assigns if [e.id for e in x.targets[0].elts] == plain and not isinstance(x.value, (ast.Tuple, ast.IfExp))]
                if 'get_pushed_variable(' in t0 and '==' in t0 and d_:
                    # the test must be about the SECOND of the plain order
                    found = True
                    about = plain[1] in t0.split('get_pushed_variable(')[1].split(')')[0]
                    rep.add(key, fi.loc(n), 'ok' if about else 'undecided', norm(v_.test))
                    continue
                if 'get_pushed_variable(' in t0 and '!=' in t0 and d_:
                    found = True
                    rep.violation(key, fi.loc(n), f'the two relations change places when `{norm(v_.test)}`, i.e. when the second one does NOT push the node')
                    continue
                if 'appears_inverted(' in t0:
                    found = True
                    rep.violation(key, fi.loc(n), f'the order is decided by `{norm(v_.test)}`: appears_inverted is also true for a triple WITHOUT a Push whose target is the node '
                                  f'context it appears in; the relations are then exchanged although the node was opened by the first one')
                    continue
            fx = facts_ex(ctx, fi, n)
            for f, pol in fx:
                f0 = f.replace(' ', '')
                if 'get_pushed_variable(' not in f0 and 'appears_inverted(' not in f0:
                    continue
                # which assignment is this: the exchange (a, b = b, a  /  b, a = <what a, b was unpacked from>), or the plain order?
                exchange = isinstance(n.value, ast.Tuple) and [norm(e) for e in n.value.elts] == tg[::-1]
                rev_unpack = not isinstance(n.value, ast.Tuple) and ref is not None and tg == list(ref)[::-1]
                if not (exchange or rev_unpack):
                    continue
                found = True
                if 'get_pushed_variable(' in f0:
                    eq = ('==' in f0 and pol) or ('!=' in f0 and not pol)
                    ne = ('!=' in f0 and pol) or ('==' in f0 and not pol)
                    if eq:
                        rep.ok(key, fi.loc(n), f)
                    elif ne:
                        rep.violation(key, fi.loc(n), f'the two relations change places when the second one does NOT push the node ({f} is {pol}): the dereified edge points the wrong way')
                    else:
                        rep.undecided(key, fi.loc(n), f'{norm(n)[:40]} under {f} = {pol}')
                else:
                    rep.violation(key, fi.loc(n), f'`{norm(n)[:50]}` is decided by `{f}`: appears_inverted is also true for a triple WITHOUT a Push whose target is the node context it '
                                  f'appears in, e.g. the second relation of "(a :ARG1-of (_ / have-mod-91) :ARG0 (b :ARG2-of _))". The relations are then exchanged although the node was '
                                  f'opened by the first one, and the dereified triple keeps Push(_) for a node that no longer exists: reifying and indicating branches afterwards '
                                  f'yields more top-role triples than nested nodes')
    if not found:
        rep.undecided(key, root.loc(), 'no assignment to the two relation names is guarded by a test of the pushed variable')
    return rep


# ---------------------------------------------------------------------------------------------
@rule('R144', 'the marker list built for a dereified triple receives at most one role alignment (a role is written with one "~" suffix)')
def r144(ctx: Ctx) -> RuleReport:
    """A triple of a decoded graph carries at most one RoleAlignment, so copying the role alignments of ONE triple adds at most one; an explicit
    RoleAlignment(...) adds one.  The sum along any path through the loop body must stay below two."""
    from ..resolve import local_callees
    rep = RuleReport('R144', r144.title, floor=1)
    root = ctx.repo.func('penman.transform', '_dereify_agenda')
    for fi in [f for f in local_callees(ctx, root, depth=1) if f.module.name == root.module.name]:
        cfg = CFG(fi.node)
        pm = ctx.repo.parent_map(fi.node)
        weight: Dict[int, Tuple[int, ast.AST]] = {}
        for n in walk_local(fi.node):
            if not (isinstance(n, ast.Call) and isinstance(n.func, ast.Attribute) and n.func.attr in ('append', 'extend') and n.args):
                continue
            a = n.args[0]
            w = 0
            if n.func.attr == 'append' and isinstance(a, ast.Call) and norm(a.func) == 'RoleAlignment':
                w = 1
            elif n.func.attr == 'extend' and isinstance(a, (ast.GeneratorExp, ast.ListComp)):
                keeps_ra = any(norm(c).replace(' ', '') .startswith('isinstance(') and norm(c).endswith('RoleAlignment)') for g in a.generators for c in g.ifs)
                if keeps_ra:
                    # how many triples' marker lists are walked?
                    w = 1
                    for g in a.generators:
                        if isinstance(g.iter, (ast.Tuple, ast.List)):
                            w = max(w, len(g.iter.elts))
                        if isinstance(g.iter, ast.BinOp) and isinstance(g.iter.op, ast.Add):
                            w = max(w, 2)
                        if isinstance(g.iter, ast.Call) and norm(g.iter.func).split('.')[-1] in ('chain',):
                            w = max(w, len(g.iter.args))
            if w:
                st = n
                while not isinstance(st, ast.stmt):
                    st = pm[id(st)]
                weight[cfg.node_of(st)] = (w, n)
        if not weight:
            continue
        # the heaviest path through one round of the enclosing loop (or through the function)
        loops = [x for x in walk_local(fi.node) if isinstance(x, ast.For) and any(cfg.node_of(pm_st) in weight for pm_st in ast.walk(x) if isinstance(pm_st, ast.stmt) and id(pm_st) in cfg.stmt_node)]
        start = cfg.node_of(loops[0]) if loops else cfg.entry
        best: Dict[int, int] = {}
        stack = [(start, 0, frozenset())]
        top, top_path = 0, None
        steps = 0
        while stack and steps < 20000:
            steps += 1
            nid, tot, seen = stack.pop()
            if nid in seen:
                continue
            tot2 = tot + (weight[nid][0] if nid in weight else 0)
            if best.get(nid, -1) >= tot2 and nid in best:
                continue
            best[nid] = tot2
            if tot2 > top:
                top, top_path = tot2, seen | {nid}
            for m, lab in cfg.succ[nid]:
                if lab == 'exc' or (loops and m == start):
                    continue
                stack.append((m, tot2, seen | {nid}))
        key = f'{fi.fq}: at most one role alignment reaches the marker list of the dereified triple'
        if top >= 2:
            culprit = next(n for nid, (w, n) in weight.items() if nid in (top_path or ()) and w >= 2) if any(w >= 2 for w, _ in weight.values()) else list(weight.values())[-1][1]
            rep.violation(key, fi.loc(culprit), f'`{norm(culprit)[:70]}` (with the other additions on the same path) can put {top} role alignments into the list: the edge is then written '
                          f'":mod~e.1~e.3", which the lexer does not read back as one role - the encoded graph no longer decodes')
        else:
            rep.ok(key, fi.loc(list(weight.values())[0][1]), f'heaviest path adds {top}')
    return rep
