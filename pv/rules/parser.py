"""Parser-side rules: R9 (built errors are raised), R10 (token-class coverage), R16 (peek-before-next
typestate), R17 (loop progress), R23err (error position provenance), R43 (exhaustion keeps the
last-token state), R41 (colon convention of the triple notation)."""
from __future__ import annotations

import ast
from typing import Dict, List, Optional, Set, Tuple

from ..cfg import CFG, Node
from ..core import Ctx, RuleReport, rule
from ..resolve import facts_ex, local_callees
from ..src import AnalysisError, ClassInfo, FuncInfo, norm, try_fold, walk_local
from .lexical import single_def

TOKIT = 'penman._lexer:TokenIterator'


# ---------------------------------------------------------------------------------------------
def exception_classes(ctx: Ctx) -> Set[str]:
    out = set()
    for c in ctx.repo.all_classes():
        for k in c.mro():
            if any(b.split('.')[-1] in ('Exception', 'BaseException', 'ValueError', 'RuntimeError', 'KeyError')
                   for b in k.base_exprs):
                out.add(c.fq)
    return out


def error_builders(ctx: Ctx) -> List[FuncInfo]:
    """Functions all of whose returns are freshly built exception objects."""
    exc = exception_classes(ctx)
    out: List[FuncInfo] = []
    known: set = set()
    grew = True
    while grew:                 # a builder may hand the construction on to another builder (error() -> _located_error() -> DecodeError(...))
        grew = False
        for fi in ctx.repo.all_functions():
            if fi.fq in known:
                continue
            rets = [n for n in walk_local(fi.node) if isinstance(n, ast.Return) and n.value is not None]
            if not rets:
                continue
            good = True
            for r in rets:
                v = single_def(ctx, fi, r.value)
                if not isinstance(v, ast.Call):
                    good = False
                    break
                ts = ctx.cg.resolve_call(v, fi)
                if not ts or not all((t.kind == 'class' and t.cls.fq in exc) or (t.kind == 'func' and t.func.fq in known) for t in ts):
                    good = False
                    break
            if good:
                out.append(fi)
                known.add(fi.fq)
                grew = True
    return out


@rule('R9', 'an error object that is built is raised (or returned/stored), never discarded')
def r9(ctx: Ctx) -> RuleReport:
    rep = RuleReport('R9', r9.title, floor=5)
    builders = {f.fq for f in error_builders(ctx)}
    exc = exception_classes(ctx)
    rep.analysed['error_builders'] = sorted(builders)
    if 'penman._lexer:TokenIterator.error' not in builders:
        raise AnalysisError('TokenIterator.error is no longer recognised as an error builder')
    for fi in ctx.repo.all_functions():
        pm = None
        for call, ts in ctx.cg.calls_in(fi):
            is_builder = any(t.kind == 'func' and t.func.fq in builders for t in ts)
            is_exc_ctor = any(t.kind == 'class' and t.cls.fq in exc for t in ts)
            if not (is_builder or is_exc_ctor):
                continue
            if pm is None:
                pm = ctx.repo.parent_map(fi.node)
            par = pm.get(id(call))
            key = f'{fi.module.name}:{fi.qualname}: {norm(call)}'
            if isinstance(par, ast.Expr):
                rep.violation(key, fi.loc(call), 'the error is built and then discarded (expression statement): '
                              'execution continues as if the input were valid')
            elif isinstance(par, (ast.Raise, ast.Return, ast.Assign, ast.AnnAssign, ast.Call, ast.keyword, ast.Yield)):
                rep.ok(key, fi.loc(call), type(par).__name__.lower())
            else:
                rep.ok(key, fi.loc(call), f'used in {type(par).__name__}')
    return rep


# ---------------------------------------------------------------------------------------------
def _is_tokit(ctx: Ctx, expr: ast.AST, fi: FuncInfo) -> bool:
    return TOKIT in ctx.cg.class_of(expr, fi, fi.module)


def _type_tests(ctx: Ctx, fi: FuncInfo) -> Set[str]:
    """String literals compared against a token's .type (directly or through a local alias)."""
    out: Set[str] = set()

    def is_type_expr(e) -> bool:
        e = single_def(ctx, fi, e)
        return isinstance(e, ast.Attribute) and e.attr == 'type'

    for n in walk_local(fi.node):
        if isinstance(n, ast.Compare) and is_type_expr(n.left):
            for c in n.comparators:
                ok, v = try_fold(c, {}, ctx.repo, fi.module)
                if ok:
                    if isinstance(v, str):
                        out.add(v)
                    elif isinstance(v, (tuple, list, set)):
                        out |= {x for x in v if isinstance(x, str)}
    return out


def _request_classes(ctx: Ctx, fi: FuncInfo) -> List[Tuple[ast.Call, str, Set[str]]]:
    """(call, 'expect'|'accept', class names) for token requests on a TokenIterator in fi."""
    out = []
    for n in walk_local(fi.node):
        if isinstance(n, ast.Call) and isinstance(n.func, ast.Attribute) and n.func.attr in ('expect', 'accept') \
                and _is_tokit(ctx, n.func.value, fi):
            names = set()
            for a in n.args:
                if isinstance(a, ast.Starred):
                    ok, v = try_fold(a.value, {}, ctx.repo, fi.module)
                    if not ok or not all(isinstance(x, str) for x in v):
                        raise AnalysisError(f'token request with a non-literal class: {norm(n)}')
                    names |= set(v)
                    continue
                ok, v = try_fold(a, {}, ctx.repo, fi.module)
                if not ok or not isinstance(v, str):
                    raise AnalysisError(f'token request with a non-literal class: {norm(n)}')
                names.add(v)
            out.append((n, n.func.attr, names))
    return out


@rule('R10', 'every token class of a lexing pattern is known to its parser; atoms are accepted where the writer emits them')
def r10(ctx: Ctx) -> RuleReport:
    rep = RuleReport('R10', r10.title, floor=14)
    repo = ctx.repo
    pairs = [('PENMAN_RE', [repo.func('penman._parse', '_parse'), repo.func('penman._parse', 'iterparse')]),
             ('TRIPLE_RE', [repo.func('penman._parse', '_parse_triples')])]
    frozen = {('TRIPLE_RE', 'COMMENT'): 'comments are not part of the documented triple notation; such a token is '
                                       'rejected with DecodeError like any stray token'}
    for pname, roots in pairs:
        cp = ctx.lex.compiled[pname]
        funcs = [f for f in ctx.cg.reachable(roots) if f.module.name == 'penman._parse']
        named: Set[str] = set()
        for f in funcs:
            named |= _type_tests(ctx, f)
            for _, _, names in _request_classes(ctx, f):
                named |= names
        for cls in cp.names():
            if cls == 'UNEXPECTED' or cls is None:
                continue
            key = f'{pname}.{cls} handled by parser'
            where = 'penman/_parse.py ' + ','.join(sorted(f.qualname for f in funcs))
            if cls in named:
                rep.ok(key, where)
            elif (pname, cls) in frozen:
                rep.exception(key, where, frozen[(pname, cls)])
            else:
                rep.violation(key, where, f'the lexer produces {cls} tokens for this notation but no parser function '
                                          f'ever expects, accepts or tests for them')
        unknown = {n for n in named if n not in cp.names()}
        for u in sorted(unknown):
            rep.violation(f'{pname}: parser names class {u}', 'penman/_parse.py',
                          f'the parser tests for token class {u!r} which {pname} never produces')
    # triple notation: the target slot must accept every atom class the lexer has
    _triple_target_requests(ctx, rep)
    return rep


def _token_origins(ctx: Ctx, fi: FuncInfo, e: ast.AST, at: ast.AST, depth: int = 0):
    """Token requests (accept/expect calls) whose *whole* token text can be the value of e.
    Returns (list of (function, call), complete?) - complete is False when some source was not understood."""
    from ..resolve import view, helper_returns
    from ..cfg import def_value
    out, complete = [], True
    if depth > 8:
        return out, False
    if isinstance(e, ast.Constant):
        return out, True
    if isinstance(e, ast.IfExp):
        for x in (e.body, e.orelse):
            o, c = _token_origins(ctx, fi, x, at, depth + 1)
            out += o
            complete &= c
        return out, complete
    if isinstance(e, ast.BoolOp):
        for x in e.values:
            o, c = _token_origins(ctx, fi, x, at, depth + 1)
            out += o
            complete &= c
        return out, complete
    if isinstance(e, ast.Subscript):
        return out, True          # a piece of a token text (the ',b' glued form / partition result): not a whole token
    if isinstance(e, ast.Attribute) and e.attr == 'text':
        return _token_origins(ctx, fi, e.value, at, depth + 1)
    if isinstance(e, ast.Call):
        if isinstance(e.func, ast.Attribute) and e.func.attr in ('accept', 'expect') and _is_tokit(ctx, e.func.value, fi):
            return [(fi, e)], True
        ts = ctx.cg.resolve_call(e, fi)
        funcs = [t.func for t in ts if t.kind == 'func']
        if len(funcs) == 1 and funcs[0].module.name == fi.module.name:
            h = funcs[0]
            for r in (n for n in walk_local(h.node) if isinstance(n, ast.Return) and n.value is not None):
                o, c = _token_origins(ctx, h, r.value, r, depth + 1)
                out += o
                complete &= c
            return out, complete
        return out, False
    if isinstance(e, ast.Name):
        v = view(ctx, fi)
        try:
            here = v.node_of(at)
        except Exception:
            return out, False
        defs = v.rd.get(here, {}).get(e.id)
        if not defs:
            return out, False
        for d in defs:
            if d == v.cfg.entry:
                continue          # a parameter: the symbol token handed in by the caller (always SYMBOL-derived)
            val = def_value(v.cfg, d, e.id)
            if val is None:
                nd = v.cfg.nodes[d]
                if nd.kind == 'stmt' and isinstance(nd.ast, ast.Assign) and isinstance(nd.ast.targets[0], ast.Tuple):
                    continue      # unpacked piece (source, comma, rest = text.partition(',')): not a whole token
                complete = False
                continue
            o, c = _token_origins(ctx, fi, val, cfg_stmt(v, d), depth + 1)
            out += o
            complete &= c
        return out, complete
    return out, False


def cfg_stmt(v, d):
    return v.cfg.nodes[d].ast


def _triple_target_requests(ctx: Ctx, rep: RuleReport):
    repo = ctx.repo
    cp = ctx.lex.compiled['TRIPLE_RE']
    atoms = {c for c in ('SYMBOL', 'STRING') if cp.has(c)}
    pt = repo.func('penman._parse', '_parse_triple')
    rets = [n for n in walk_local(pt.node) if isinstance(n, ast.Return) and n.value is not None]
    origins, complete = [], True
    for r in rets:
        if not (isinstance(r.value, ast.Tuple) and len(r.value.elts) == 2):
            rep.undecided('penman._parse:_parse_triple: returns (source, target)', pt.loc(r), norm(r))
            return
        o, c = _token_origins(ctx, pt, r.value.elts[1], r)
        origins += o
        complete &= c
    seen = set()
    for f, call in origins:
        if id(call) in seen:
            continue
        seen.add(id(call))
        ok_names = set()
        for a in call.args:
            okf, s_ = try_fold(a, {}, ctx.repo, f.module)
            if okf and isinstance(s_, str):
                ok_names.add(s_)
            elif isinstance(a, ast.Starred):
                okf, s_ = try_fold(a.value, {}, ctx.repo, f.module)
                if okf:
                    ok_names |= set(s_)
        key = f'{f.module.name}:{f.qualname}: target token <- {norm(call)}'
        missing = atoms - ok_names
        if missing:
            rep.violation(key, f.loc(call), f'the target position accepts {sorted(ok_names)} but the lexing '
                          f'pattern also has atom class(es) {sorted(missing)}, which format_triples emits')
        else:
            rep.ok(key, f.loc(call))
    if not origins or not complete:
        rep.undecided('penman._parse:_parse_triple: every source of the target is a token request or a piece of the first symbol', pt.loc(),
                      'some value that can become the target was not traced back to a token request')


# ---------------------------------------------------------------------------------------------
def header_exprs(node: Node) -> List[ast.AST]:
    st = node.ast
    if node.kind == 'cond':
        return [st]
    if node.kind == 'for':
        return [st.iter]
    if node.kind == 'stmt':
        if isinstance(st, (ast.With, ast.AsyncWith)):
            return [i.context_expr for i in st.items]
        if isinstance(st, (ast.FunctionDef, ast.AsyncFunctionDef, ast.ClassDef)):
            return []
        return [st]
    return []


def _bound_alias(ctx: Ctx, fi: FuncInfo, call: ast.Call):
    """`advance = tokens.next` ... `advance()`: (method name, receiver source) when the callee is a local name bound once to a method of the token iterator"""
    if not isinstance(call.func, ast.Name):
        return None
    vals = ctx.cg.local_assigns(fi).get(call.func.id, [])
    if len(vals) == 1 and isinstance(vals[0], ast.Attribute) and vals[0].attr in ('next', 'peek', 'expect', 'accept', '__next__') and _is_tokit(ctx, vals[0].value, fi):
        return vals[0].attr, norm(vals[0].value)
    return None


def token_ops(ctx: Ctx, fi: FuncInfo, node: Node) -> List[Tuple[str, ast.Call, str]]:
    """Token-stream operations evaluated at this CFG node: (op, call, receiver source), op in
    next/peek/expect/accept/bool/pass (iterator passed to a callee)."""
    ops = []
    for e in header_exprs(node):
        for n in ast.walk(e):
            if isinstance(n, (ast.FunctionDef, ast.Lambda)):
                continue
            if isinstance(n, ast.Call):
                if isinstance(n.func, ast.Attribute) and n.func.attr in ('next', 'peek', 'expect', 'accept', '__next__') \
                        and _is_tokit(ctx, n.func.value, fi):
                    ops.append((n.func.attr, n, norm(n.func.value)))
                elif _bound_alias(ctx, fi, n):
                    ba = _bound_alias(ctx, fi, n)
                    ops.append((ba[0], n, ba[1]))
                else:
                    for a in list(n.args) + [k.value for k in n.keywords]:
                        if isinstance(a, ast.Name) and _is_tokit(ctx, a, fi):
                            nm = n.func.id if isinstance(n.func, ast.Name) else ''
                            if nm in ('bool', 'isinstance', 'id', 'type', 'repr'):
                                continue
                            ops.append(('pass', n, a.id))
        if node.kind == 'cond' and isinstance(e, ast.Name) and _is_tokit(ctx, e, fi):
            ops.append(('bool', e, e.id))
    return ops


@rule('R16', 'TokenIterator.next() is only called after a successful peek / truth test (no StopIteration can escape)')
def r16(ctx: Ctx) -> RuleReport:
    rep = RuleReport('R16', r16.title, floor=8)
    tokcls = ctx.repo.cls('penman._lexer', 'TokenIterator')
    n_funcs = 0
    for fi in ctx.repo.all_functions():
        if fi.cls is not None and fi.cls.fq == tokcls.fq:
            continue
        calls = [n for n in walk_local(fi.node) if isinstance(n, ast.Call) and isinstance(n.func, ast.Attribute)
                 and n.func.attr == 'next' and _is_tokit(ctx, n.func.value, fi)]
        calls += [n for n in walk_local(fi.node) if isinstance(n, ast.Call) and (_bound_alias(ctx, fi, n) or ('', ''))[0] == 'next']
        # accept(<types>) looks at the lookahead itself and answers None at the end of input (R43 reads TokenIterator.accept): a token taken that way needs no peek
        for n in walk_local(fi.node):
            if isinstance(n, ast.Call) and isinstance(n.func, ast.Attribute) and n.func.attr == 'accept' and _is_tokit(ctx, n.func.value, fi):
                rep.ok(f'{fi.module.name}:{fi.qualname}: {norm(n)[:60]}', fi.loc(n), 'accept() tests the lookahead before it takes the token')
        if not calls:
            continue
        n_funcs += 1
        cfg = CFG(fi.node)

        def transfer(node: Node, label, facts: frozenset):
            ops = token_ops(ctx, fi, node)
            cur = set(facts)
            for op, call, recv in ops:
                if op == 'peek':
                    cur.add(recv)           # returning normally means a token is available
                elif op == 'bool':
                    if label == 'T':
                        cur.add(recv)
                    else:
                        cur.discard(recv)
                else:                        # next / expect / accept / pass: stream may have advanced
                    cur.discard(recv)
            if node.kind == 'stmt':
                from ..cfg import assigned_names
                for nm in assigned_names(node.ast):
                    cur.discard(nm)
            return frozenset(cur)

        IN = cfg.forward(frozenset(), transfer, lambda a, b: a & b)
        pm = ctx.repo.parent_map(fi.node)
        # a helper that is only ever called right after its caller peeked starts with that knowledge
        entry = _entry_peeked(ctx, fi)
        if entry:
            IN = cfg.forward(frozenset(entry), transfer, lambda a, b: a & b)
        for call in calls:
            n = call
            while id(n) not in cfg.expr_cond and not isinstance(n, ast.stmt):
                n = pm[id(n)]
            nid = cfg.expr_cond.get(id(n)) if id(n) in cfg.expr_cond else cfg.node_of(n)
            recv = norm(call.func.value) if isinstance(call.func, ast.Attribute) else _bound_alias(ctx, fi, call)[1]
            facts = IN.get(nid, frozenset())
            ops_here = token_ops(ctx, fi, cfg.nodes[nid])
            consuming_before = [o for o in ops_here if o[0] in ('next', 'expect', 'accept', 'pass') and o[1] is not call
                                and (o[1].lineno, o[1].col_offset) < (call.lineno, call.col_offset)
                                and not any(x is call for x in ast.walk(o[1]))]      # arguments are evaluated before the call
            in_try = _in_try_stopiteration(pm, call)
            key = f'{fi.module.name}:{fi.qualname}: {norm(n) if isinstance(n, ast.stmt) else norm(n)}'
            if recv in facts and not consuming_before:
                rep.ok(key, fi.loc(call), 'dominated by a successful peek()/truth test with no consuming operation between')
            elif in_try:
                rep.ok(key, fi.loc(call), 'inside try/except StopIteration')
            else:
                rep.violation(key, fi.loc(call), f'{recv}.next() can run at end of input: no successful peek()/truth test '
                              f'of {recv} dominates it without an intervening consuming call; StopIteration (RuntimeError '
                              f'inside the iterparse generator) would escape instead of DecodeError')
    rep.analysed['functions_with_next_calls'] = n_funcs
    # inside TokenIterator itself: expect() handles StopIteration, accept() checks _next, __next__ is the protocol
    for mname in ('expect', 'accept'):
        m = tokcls.methods.get(mname)
        if m is None:
            raise AnalysisError(f'TokenIterator.{mname} vanished')
        pm = ctx.repo.parent_map(m.node)
        for n in walk_local(m.node):
            if isinstance(n, ast.Call) and isinstance(n.func, ast.Attribute) and n.func.attr == 'next' \
                    and isinstance(n.func.value, ast.Name) and n.func.value.id == 'self':
                key = f'penman._lexer:TokenIterator.{mname}: {norm(n)}'
                if _in_try_stopiteration(pm, n):
                    rep.ok(key, m.loc(n), 'inside try/except StopIteration converting to DecodeError')
                else:
                    from ..resolve import facts_ex
                    facts = facts_ex(ctx, m, n)
                    if ('self._next is not None', True) in facts or ('self._next is None', False) in facts:
                        rep.ok(key, m.loc(n), 'guarded by self._next is not None')
                    else:
                        rep.violation(key, m.loc(n), 'self.next() may raise StopIteration out of a DecodeError-only API')
    return rep


def _entry_peeked(ctx: Ctx, fi: FuncInfo, depth: int = 0) -> Set[str]:
    """Parameters of `fi` holding a token iterator that every (resolved) caller has successfully peeked at the call."""
    callers = ctx.cg.callers.get(fi.fq, [])
    if not callers or depth > 2:
        return set()
    out: Optional[Set[str]] = None
    for cfi, call in callers:
        if cfi.fq == fi.fq:
            continue
        cfg = CFG(cfi.node)

        def transfer(node: Node, label, facts: frozenset, cfi=cfi):
            cur = set(facts)
            for op, c, recv in token_ops(ctx, cfi, node):
                if op == 'peek':
                    cur.add(recv)
                elif op == 'bool':
                    if label == 'T':
                        cur.add(recv)
                    else:
                        cur.discard(recv)
                elif c is call or any(x is call for x in ast.walk(c)):
                    pass            # the call we are looking at: its effect comes after its entry
                else:
                    cur.discard(recv)
            if node.kind == 'stmt':
                from ..cfg import assigned_names
                for nm in assigned_names(node.ast):
                    cur.discard(nm)
            return frozenset(cur)
        IN = cfg.forward(frozenset(_entry_peeked(ctx, cfi, depth + 1)), transfer, lambda a, b: a & b)
        pm = ctx.repo.parent_map(cfi.node)
        # an indirect call through a local (`f = TABLE.get(kind); ... f(tokens)`) is found by its argument list
        sites = [call] if any(x is call for x in walk_local(cfi.node)) else []
        here: Set[str] = set()
        for site in sites:
            n = site
            while id(n) not in cfg.expr_cond and not isinstance(n, ast.stmt):
                n = pm[id(n)]
            nid = cfg.expr_cond.get(id(n)) if id(n) in cfg.expr_cond else cfg.node_of(n)
            facts = IN.get(nid, frozenset())
            pos = fi.positional[1:] if fi.is_method() else fi.positional
            for prm, a in zip(pos, site.args):
                if isinstance(a, ast.Name) and a.id in facts:
                    here.add(prm)
        out = here if out is None else (out & here)
    return out or set()


def _in_try_stopiteration(pm, node) -> bool:
    n = node
    while id(n) in pm:
        par = pm[id(n)]
        if isinstance(par, ast.Try) and any(n is b or _contains(b, n) for b in par.body):
            for h in par.handlers:
                t = norm(h.type) if h.type is not None else ''
                if t in ('', 'Exception', 'BaseException') or 'StopIteration' in t:
                    return True
        n = par
    return False


def _contains(root, node) -> bool:
    return any(x is node for x in ast.walk(root))


# ---------------------------------------------------------------------------------------------
@rule('R23err', 'error positions: with a token its own lineno/offset/line, without one the end of the last token')
def r23err(ctx: Ctx) -> RuleReport:
    rep = RuleReport('R23err', r23err.title, floor=5)
    fi = ctx.repo.func('penman._lexer', 'TokenIterator.error')
    where = fi.loc()
    # find the DecodeError(...) construction
    ctor = None
    for call, ts in ctx.cg.calls_in(fi):
        if any(t.kind == 'class' and t.cls.name == 'DecodeError' for t in ts):
            ctor = call
    if ctor is None:
        raise AnalysisError('TokenIterator.error does not build a DecodeError')
    kws = {k.arg: k.value for k in ctor.keywords}
    for fld in ('lineno', 'offset'):
        rep.oblige(f'DecodeError receives {fld}', fld in kws and isinstance(kws[fld], ast.Name), '', where,
                   key=f'error passes {fld}', positive=False)
    # gather assignments to lineno/offset per branch of `token is None`
    from ..cfg import cond_facts, facts_at
    cfg = CFG(fi.node)
    IN = cond_facts(cfg)
    pm = ctx.repo.parent_map(fi.node)
    tokparam = fi.positional[2] if len(fi.positional) > 2 else 'token'
    seen = {'with_token': False, 'last_lineno': False, 'last_offset': False}
    for n in walk_local(fi.node):
        if not isinstance(n, ast.Assign):
            continue
        facts = facts_at(cfg, IN, pm, n)
        no_token = (f'{tokparam} is None', True) in facts
        has_token = (f'{tokparam} is None', False) in facts or (f'{tokparam} is not None', True) in facts
        tgt = n.targets[0]
        if has_token and isinstance(tgt, ast.Tuple) and isinstance(n.value, ast.Name) and n.value.id == tokparam:
            names = [e.id if isinstance(e, ast.Name) else None for e in tgt.elts]
            # Token fields: type, text, lineno, offset, line
            good = len(names) == 5 and names[2] == norm(kws.get('lineno', ast.Name(id='?'))) \
                and names[3] == norm(kws.get('offset', ast.Name(id='?')))
            rep.oblige('with a token: lineno/offset are the 3rd/4th field of that token', good, norm(n), fi.loc(n),
                       key='error with token')
            seen['with_token'] = True
        if has_token and isinstance(tgt, ast.Name) and isinstance(n.value, ast.Attribute) \
                and isinstance(n.value.value, ast.Name) and n.value.value.id == tokparam:
            if tgt.id == norm(kws.get('lineno')):
                rep.oblige('with a token: lineno is token.lineno', n.value.attr == 'lineno', norm(n), fi.loc(n), key='error with token lineno')
                seen['with_token'] = True
            if tgt.id == norm(kws.get('offset')):
                rep.oblige('with a token: offset is token.offset', n.value.attr == 'offset', norm(n), fi.loc(n), key='error with token offset')
        if no_token and ('self._last is not None', True) in facts and isinstance(tgt, ast.Name):
            src = norm(n.value)
            if tgt.id == norm(kws.get('lineno')):
                rep.oblige('at end of input: lineno is that of the last token', src == 'self._last.lineno', src, fi.loc(n),
                           key='error at end lineno')
                seen['last_lineno'] = True
            if tgt.id == norm(kws.get('offset')):
                good = src in ('self._last.offset + len(self._last.text)', 'len(self._last.text) + self._last.offset')
                rep.oblige('at end of input: offset is the end of the last token', good, src, fi.loc(n),
                           key='error at end offset')
                seen['last_offset'] = True
    for k, v in seen.items():
        if not v:
            rep.oblige(f'error(): assignment for case {k} found', False, 'shape not recognised', where, key=f'error case {k}')
    return rep


@rule('R43', 'TokenIterator.next(): the last-token state is untouched when the iterator is already exhausted')
def r43(ctx: Ctx) -> RuleReport:
    rep = RuleReport('R43', r43.title, floor=2)
    fi = ctx.repo.func('penman._lexer', 'TokenIterator.next')
    cfg = CFG(fi.node)
    raises = [nd.id for nd in cfg.nodes if nd.kind == 'stmt' and isinstance(nd.ast, ast.Raise)]
    if not raises:
        # no re-raise of its own: the one-argument next(<source>) under "nothing is buffered" lets the source's StopIteration pass
        from ..resolve import facts_ex as _fx43
        pm43 = ctx.repo.parent_map(fi.node)
        for c in walk_local(fi.node):
            if isinstance(c, ast.Call) and isinstance(c.func, ast.Name) and c.func.id == 'next' and len(c.args) == 1 and not c.keywords:
                fx = {(f.replace(' ', ''), pol) for f, pol in _fx43(ctx, fi, c)}
                if ('self._nextisNone', True) in fx or ('self._nextisnotNone', False) in fx:
                    st = c
                    while not isinstance(st, ast.stmt):
                        st = pm43[id(st)]
                    raises = [cfg.node_of(st)]
    if not raises:
        rep.oblige('next() re-raises StopIteration when already exhausted', False,
                   'no raise statement: exhaustion would return None', fi.loc(), key='next re-raises')
        return rep
    rep.oblige('next() re-raises StopIteration when already exhausted', True, '', fi.loc(), key='next re-raises')

    def stores_last(nd: Node) -> bool:
        if nd.kind != 'stmt' or not isinstance(nd.ast, (ast.Assign, ast.AugAssign, ast.AnnAssign)):
            return False
        tgts = nd.ast.targets if isinstance(nd.ast, ast.Assign) else [nd.ast.target]
        flat = []
        for t in tgts:
            flat += t.elts if isinstance(t, (ast.Tuple, ast.List)) else [t]
        return any(isinstance(t, ast.Attribute) and t.attr == '_last' for t in flat)

    # every method that advances the look-ahead also records the token it hands out
    tokcls = ctx.repo.cls('penman._lexer', 'TokenIterator')
    for mname, m in sorted(tokcls.methods.items()):
        if mname in ('__init__',):
            continue
        adv = [n for n in walk_local(m.node) if isinstance(n, ast.Assign) and any(
            isinstance(t, ast.Attribute) and t.attr == '_next' and norm(t.value) == 'self'
            for tg in n.targets for t in (tg.elts if isinstance(tg, (ast.Tuple, ast.List)) else [tg]))]
        if not adv:
            continue
        last = [n for n in walk_local(m.node) if isinstance(n, ast.Assign) and any(
            isinstance(t, ast.Attribute) and t.attr == '_last' and norm(t.value) == 'self'
            for tg in n.targets for t in (tg.elts if isinstance(tg, (ast.Tuple, ast.List)) else [tg]))]
        rep.add(f'penman._lexer:TokenIterator.{mname}: advancing the look-ahead records the consumed token as the last token', m.loc(adv[0]),
                'ok' if last else 'violation',
                '' if last else f'`{norm(adv[0])[:60]}` advances the iterator but self._last is not updated in this method: an error at end of input is then '
                                f'reported at the position of an earlier token (or at line 0) instead of the end of the last token')
    stores = [nd for nd in cfg.nodes if stores_last(nd)]
    if not stores:
        rep.oblige('next() records the consumed token as the last token', False, 'no store to self._last', fi.loc(),
                   key='next stores _last')
    for nd in stores:
        reach = cfg.reachable_from([nd.id])
        bad = [r for r in raises if r in reach]
        rep.oblige('the store to self._last cannot be followed by the exhaustion re-raise', not bad,
                   'self._last is overwritten before StopIteration is re-raised: expect() then reports the '
                   'end-of-input error at line 0, column 0 instead of the end of the last token' if bad else '',
                   fi.loc(nd.ast), key=f'penman._lexer:TokenIterator.next: {norm(nd.ast)}', positive=True)
        # and the stored value is the token being returned
        rets = [n for n in walk_local(fi.node) if isinstance(n, ast.Return) and n.value is not None]
        val = nd.ast.value if isinstance(nd.ast, (ast.Assign, ast.AnnAssign)) else None
        if isinstance(nd.ast, ast.Assign) and isinstance(nd.ast.targets[0], (ast.Tuple, ast.List)) and isinstance(val, (ast.Tuple, ast.List)) \
                and len(val.elts) == len(nd.ast.targets[0].elts):
            for t, v in zip(nd.ast.targets[0].elts, val.elts):
                if isinstance(t, ast.Attribute) and t.attr == '_last':
                    val = v
        same = bool(rets) and val is not None and all(norm(r.value) == norm(val) for r in rets)
        differs = bool(rets) and isinstance(val, (ast.Name, ast.Attribute)) and all(isinstance(r.value, (ast.Name, ast.Attribute)) for r in rets) and not same
        rep.oblige('the last token recorded is the token returned', same, '' if same else f'records {norm(val) if val is not None else None}', fi.loc(nd.ast),
                   key=f'penman._lexer:TokenIterator.next: last == returned', positive=differs)
    return rep


# ---------------------------------------------------------------------------------------------
@rule('R41', 'triple notation: the writer strips the leading colon, the reader restores it, Graph normalises it')
def r41(ctx: Ctx) -> RuleReport:
    rep = RuleReport('R41', r41.title, floor=3)
    ft = ctx.repo.func('penman._format', 'format_triples')
    from ..resolve import local_callees, facts_ex
    strip = [n for f in local_callees(ctx, ft, depth=1) for n in walk_local(f.node) if isinstance(n, ast.Call) and isinstance(n.func, ast.Attribute)
             and n.func.attr in ('lstrip', 'removeprefix', 'strip') and n.args and try_fold(n.args[0]) == (True, ':')]
    raw_role = None
    if not strip:
        # positive evidence: the role of the unpacked triple is written into the text as it is
        for f in local_callees(ctx, ft, depth=1):
            for n in walk_local(f.node):
                tgt = n.target if isinstance(n, (ast.For, ast.comprehension)) else (n.targets[0] if isinstance(n, ast.Assign) else None)
                if isinstance(tgt, ast.Tuple) and len(tgt.elts) == 3 and isinstance(tgt.elts[1], ast.Name):
                    r = tgt.elts[1].id
                    for x in walk_local(f.node):
                        written = []
                        if isinstance(x, ast.JoinedStr):
                            written = [v.value for v in x.values if isinstance(v, ast.FormattedValue)]
                        elif isinstance(x, ast.Call) and isinstance(x.func, ast.Attribute) and x.func.attr == 'format':
                            written = list(x.args) + [k.value for k in x.keywords]
                        elif isinstance(x, ast.BinOp) and isinstance(x.op, (ast.Add, ast.Mod)):
                            written = [x.left, x.right] + (list(x.right.elts) if isinstance(x.right, ast.Tuple) else [])
                        if any(isinstance(w, ast.Name) and w.id == r for w in written):
                            raw_role = (f, x, r)
    if raw_role:
        rep.violation('format_triples strips colon', raw_role[0].loc(raw_role[1]),
                      f'the role `{raw_role[2]}` is written as stored (with its leading colon): `{norm(raw_role[1])[:60]}`; the triple reader then '
                      f'reads a role with two colons, or a different role')
    else:
        rep.oblige('format_triples strips the leading colon of the role', bool(strip), '', ft.loc(), key='format_triples strips colon')
    pt = ctx.repo.func('penman._parse', '_parse_triples')
    from ..cfg import cond_facts, facts_at
    cfg = CFG(pt.node)
    IN = cond_facts(cfg)
    pm = ctx.repo.parent_map(pt.node)
    adds = False
    for f in local_callees(ctx, pt, depth=1):
        for n in walk_local(f.node):
            # ':' + name   /   f':{name}'   evaluated where name is known not to start with a colon
            nm = None
            if isinstance(n, ast.BinOp) and isinstance(n.op, ast.Add) and try_fold(n.left) == (True, ':') and isinstance(n.right, ast.Name):
                nm = n.right.id
            if isinstance(n, ast.JoinedStr) and len(n.values) == 2 and isinstance(n.values[0], ast.Constant) and n.values[0].value == ':' \
                    and isinstance(n.values[1], ast.FormattedValue) and isinstance(n.values[1].value, ast.Name):
                nm = n.values[1].value.id
            if nm and (f"{nm}.startswith(':')", False) in facts_ex(ctx, f, n):
                adds = True
    canon_call = None
    if not adds:
        # the colon is "restored" by Model.canonicalize_role (directly, or through a module-level alias of the bound method)
        for f in local_callees(ctx, pt, depth=1):
            for n in walk_local(f.node):
                if isinstance(n, ast.Call):
                    fn = n.func
                    if isinstance(fn, ast.Name) and fn.id in f.module.constants:
                        fn = f.module.constants[fn.id]
                    if isinstance(fn, ast.Attribute) and fn.attr in ('canonicalize_role', 'canonicalize'):
                        canon_call = (f, n)
    if canon_call:
        f, n = canon_call
        rep.violation('_parse_triples restores colon', f.loc(n), f'`{norm(n)[:50]}` puts the colon back with Model.canonicalize_role, which does more than that: it also removes '
                      f'pairs of -of and applies the normalisation table. "ARG0-of-of(b, a)" is read as (b :ARG0 a): the role that is read is not the role that was written, so '
                      f'the triple conjunction no longer gives back the triples it was written from')
    else:
        rep.oblige('_parse_triples adds the colon exactly when it is absent', adds, '', pt.loc(), key='_parse_triples restores colon')
    # a flag carried from one conjunct to the next (was the `^` glued to the role?) is decided anew for every conjunct
    from ..cfg import assigned_names
    for loop in [n for n in walk_local(pt.node) if isinstance(n, (ast.While, ast.For))]:
        head = cfg.node_of(loop)
        flags = {}
        for n in ast.walk(loop):
            if isinstance(n, ast.Assign) and isinstance(n.targets[0], ast.Name) and isinstance(n.value, ast.Constant) and isinstance(n.value.value, bool):
                flags.setdefault(n.targets[0].id, set()).add(n.value.value)
        for flag, vals in sorted(flags.items()):
            reads = [nd for nd in cfg.nodes if nd.kind == 'cond' and any(isinstance(x, ast.Name) and x.id == flag for x in ast.walk(nd.ast))
                     and any(x is nd.ast for x in ast.walk(loop))]
            if not reads or True not in vals:
                continue
            writes = {nd.id for nd in cfg.nodes if nd.kind == 'stmt' and flag in assigned_names(nd.ast)}
            rd = reads[0]
            stale = None
            for lab in ('T', 'F'):
                stale = stale or cfg.path_avoiding([(rd.id, lab)], {head}, lambda nd: nd.id in writes)
            key = f'penman._parse:_parse_triples: the flag `{flag}` is set again for every conjunct'
            rep.add(key, pt.loc(rd.ast), 'violation' if stale else 'ok',
                    f'`{flag}` is read for every conjunct but a path continues the loop without assigning it ('
                    + ' -> '.join(repr(cfg.nodes[x]) for x in stale[-4:])[:200] + '): once set it stays set, so how an earlier separator was written '
                    'changes how a later role is read (a role that itself starts with "^" loses its first character)' if stale else '')
    # the loop goes on to another conjunct only after a SYMBOL that starts with "^" was seen; the flag says whether the sign was glued to the role
    caret_flags = set()
    for f_ in local_callees(ctx, pt, depth=1):
        for n_ in walk_local(f_.node):
            if isinstance(n_, ast.If) and "'^'" in norm(n_.test) and any(isinstance(x, ast.Assign) and isinstance(x.value, ast.Subscript) for x in n_.body):
                caret_flags |= {x.id for x in ast.walk(n_.test) if isinstance(x, ast.Name)} - {'role'}
    caret_flags = {c_ for c_ in caret_flags if any(isinstance(n_, ast.Assign) and isinstance(n_.targets[0], ast.Name) and n_.targets[0].id == c_ and isinstance(n_.value, ast.Constant)
                                                   for n_ in walk_local(pt.node))}
    for loop in [n for n in walk_local(pt.node) if isinstance(n, (ast.While, ast.For))]:
        fl_assigns = [n for n in ast.walk(loop) if isinstance(n, ast.Assign) and isinstance(n.targets[0], ast.Name) and isinstance(n.value, ast.Constant)
                      and isinstance(n.value.value, bool) and n.targets[0].id in caret_flags]
        for a in fl_assigns:
            fx = facts_ex(ctx, pt, a)
            srcs = {(f.replace(' ', ''), pol) for f, pol in fx}
            tok = None
            for f, pol in srcs:
                if f.endswith(".text.startswith('^')"):
                    tok = f[:-len(".text.startswith('^')")]
            kx = f'penman._parse:_parse_triples: `{norm(a)}` (another conjunct follows) is reached only after a SYMBOL token that starts with "^"'
            if tok is None or (f"{tok}.text.startswith('^')", True) not in srcs:
                rep.violation(kx, pt.loc(a), f'the parser goes on to a further conjunct without having seen the conjunction sign (facts here: {sorted(f for f, p in fx if p)[:3]}): '
                              f'`a(b, c) d(e, f)` is accepted as two triples, or the loop runs into the end of the input')
                continue
            # (only a SYMBOL token can begin with "^": the other token classes begin with '"', ':', '(', ')', ',' ... - no separate type test is required)
            alone_t, alone_f = (f"{tok}.text=='^'", True) in srcs, (f"{tok}.text=='^'", False) in srcs
            if a.value.value is True and alone_t:
                rep.violation(kx + ' [glued]', pt.loc(a), 'the flag is set although the sign stands alone: the next role, if it begins with "^" itself, loses that character')
            elif a.value.value is False and alone_f:
                rep.violation(kx + ' [alone]', pt.loc(a), 'the flag is cleared although the sign is glued to the next role: the role keeps the sign as its first character')
            elif alone_t or alone_f:
                rep.ok(kx, pt.loc(a))
            else:
                rep.undecided(kx, pt.loc(a), 'no test whether the sign stands alone')
    # before the first conjunct there is no sign to take off
    for nm in {n.targets[0].id for n in walk_local(pt.node) if isinstance(n, ast.Assign) and isinstance(n.targets[0], ast.Name) and isinstance(n.value, ast.Constant)
               and isinstance(n.value.value, bool)} & caret_flags:
        inits = [n for n in pt.node.body if isinstance(n, ast.Assign) and isinstance(n.targets[0], ast.Name) and n.targets[0].id == nm and isinstance(n.value, ast.Constant)]
        for i0 in inits:
            rep.add(f'penman._parse:_parse_triples: `{nm}` starts out false (no conjunction sign precedes the first conjunct)', pt.loc(i0),
                    'ok' if i0.value.value is False else 'violation',
                    '' if i0.value.value is False else 'the role of the first conjunct loses a leading "^" that belongs to its name')
    # a leading "^" is taken off a role only when that token was seen to carry the conjunction sign (state from the previous conjunct)
    for f in local_callees(ctx, pt, depth=1):
        for n in walk_local(f.node):
            if not (isinstance(n, ast.Assign) and len(n.targets) == 1 and isinstance(n.targets[0], ast.Name)):
                continue
            nm = n.targets[0].id
            v = n.value
            cuts_first = isinstance(v, ast.Subscript) and norm(v.value) == nm and isinstance(v.slice, ast.Slice) and v.slice.lower is not None \
                and try_fold(v.slice.lower) == (True, 1) and v.slice.upper is None
            cuts_caret = isinstance(v, ast.Call) and isinstance(v.func, ast.Attribute) and norm(v.func.value) == nm \
                and v.func.attr in ('lstrip', 'removeprefix') and v.args and try_fold(v.args[0]) == (True, '^')
            if not (cuts_first or cuts_caret):
                continue
            fx = facts_ex(ctx, f, n)
            about_caret = cuts_caret or any(pol and fsrc.replace(' ', '') in (f"{nm}.startswith('^')", f"{nm}[0]=='^'", f"{nm}[:1]=='^'") for fsrc, pol in fx)
            if not about_caret:
                pmf = ctx.repo.parent_map(f.node)
                par = pmf.get(id(n))
                about_caret = isinstance(par, ast.If) and "'^'" in norm(par.test)
            if not about_caret:
                continue
            state = sorted(fsrc for fsrc, pol in fx if pol and fsrc.isidentifier() and fsrc not in ('True', 'False', 'None'))
            key = f'penman._parse:{f.qualname}: `{norm(n)}` removes the conjunction sign only from a token that was seen to carry it'
            if state:
                rep.ok(key, f.loc(n), f'under {state}')
            else:
                rep.violation(key, f.loc(n), f'every role token that starts with "^" loses it - also the role of the first conjunct and a role that follows a free-standing "^": '
                              f'a role whose own name begins with "^" (format_triples writes `^scope(a, b)` for `:^scope`) comes back without it')
    gi = ctx.repo.func('penman.graph', 'Graph.__init__')
    from .graphq import _colon_helpers
    _ch = _colon_helpers(ctx)
    uses = any(isinstance(n, ast.Call) and isinstance(n.func, ast.Name) and n.func.id in _ch
               for n in walk_local(gi.node))
    if not uses:
        # through a module-level helper the constructor maps over the triples
        for f_ in local_callees(ctx, gi, depth=1):
            if f_.fq != gi.fq and f_.module.name == gi.module.name and any(isinstance(n, ast.Call) and isinstance(n.func, ast.Name) and n.func.id in _ch for n in walk_local(f_.node)):
                uses = True
        # ... or the colon is added in place:  ':' + role  where role is known not to start with one
        for f_ in local_callees(ctx, gi, depth=1):
            if f_.module.name != gi.module.name:
                continue
            for n in walk_local(f_.node):
                if isinstance(n, ast.BinOp) and isinstance(n.op, ast.Add) and try_fold(n.left) == (True, ':') and isinstance(n.right, ast.Name):
                    if (f"{n.right.id}.startswith(':')", False) in facts_ex(ctx, f_, n):
                        uses = True
        for n in walk_local(gi.node):
            if isinstance(n, ast.Call) and norm(n.func) == 'map' and n.args and isinstance(n.args[0], ast.Name) and n.args[0].id in gi.module.functions \
                    and any(isinstance(x, ast.Call) and isinstance(x.func, ast.Name) and x.func.id in _ch for x in walk_local(gi.module.functions[n.args[0].id].node)):
                uses = True
    rep.oblige('Graph.__init__ normalises roles through _ensure_colon', uses, '', gi.loc(), key='Graph normalises colon')
    return rep


# ---------------------------------------------------------------------------------------------
# R19: parser (abstractly interpreted at token-kind level) == reference recogniser
# ---------------------------------------------------------------------------------------------
def _r19_bounds(ctx: Ctx):
    return (8, 3) if ctx.tier == 'thorough' else (5, 2)


@rule('R19', 'parse / iterparse accept exactly the documented language and report errors at the documented position (token-kind level)')
def r19(ctx: Ctx) -> RuleReport:
    from ..pfsm import Hang, Interp, NeedMore, reference
    rep = RuleReport('R19', r19.title, floor=100)
    L, D = _r19_bounds(ctx)
    total_paths = 0
    for entry in ('parse', 'iterparse'):
        fi = ctx.repo.func('penman._parse', entry)
        it = Interp(ctx.repo, ctx.cg, L, D)
        try:
            obs = it.run_entry(fi)
        except Hang:
            rep.violation(f'penman._parse:{entry}: abstract run terminates', fi.loc(),
                          'a loop whose condition depends on the token stream completes an iteration without consuming a '
                          'token: the parser can hang on some input')
            continue
        total_paths += it.n_paths
        bad = 0
        shown = 0
        for seq in sorted(obs, key=lambda s: (len(s), s)):
            got = obs[seq]
            key = f'penman._parse:{entry}: ' + ' '.join(seq)
            try:
                want = reference(entry, seq)
            except NeedMore:
                want = ('reference-needs-more-input',)
            if len(got) == 1 and next(iter(got)) == want:
                if shown < 12:
                    rep.ok(key, fi.loc(), f'{want}')
                    shown += 1
                else:
                    rep.instances.append(__import__('pv.core', fromlist=['Instance']).Instance('R19', key, fi.loc(), 'ok'))
                continue
            bad += 1
            if bad <= 8:
                rep.violation(key, fi.loc(),
                              f'for the token-kind sequence [{" ".join(seq)}] the parser gives {sorted(got, key=str)} but the documented '
                              f'grammar prescribes {want} (ok/error shape, trees yielded so far, token index)')
        if bad > 8:
            rep.violation(f'penman._parse:{entry}: {bad - 8} further disagreeing sequences', fi.loc(), 'see the first eight')
        rep.analysed[f'{entry}_sequences'] = len(obs)
        rep.analysed[f'{entry}_steps'] = it.n_steps
    rep.analysed['bounds'] = {'max_tokens': L, 'max_nesting': D}
    rep.analysed['paths'] = total_paths
    rep.assumptions += ['token texts are not modelled: conditions on texts fork both ways and must not change the token-level outcome',
                        f'exhaustive for all token-kind sequences of at most {L} tokens with nesting at most {D}; the machines are '
                        f'finite-state above a bounded stack, so deeper nesting repeats the same states']
    return rep


@rule('R69', 'text taken from the token stream is never dropped: a local holding token text is used on every path to a normal return')
def r69(ctx: Ctx) -> RuleReport:
    from ..resolve import view
    from ..cfg import assigned_names
    rep = RuleReport('R69', r69.title, floor=4)
    mod = ctx.repo.module('penman._parse')
    funcs = list(mod.all_funcs)
    # helpers that hand back token text: some return value mentions `.text`
    text_helpers = {f.fq for f in funcs if any(isinstance(r, ast.Return) and r.value is not None and any(
        isinstance(x, ast.Attribute) and x.attr == 'text' for x in ast.walk(r.value)) for r in walk_local(f.node))}

    def carries_text(f: FuncInfo, e: ast.AST) -> bool:
        for x in ast.walk(e):
            if isinstance(x, ast.Attribute) and x.attr == 'text':
                return True
            if isinstance(x, ast.Call):
                if any(t.kind == 'func' and t.func.fq in text_helpers for t in ctx.cg.resolve_call(x, f)):
                    return True
        return False
    for f in funcs:
        v = view(ctx, f)
        cfg = v.cfg
        rets = {nd.id for nd in cfg.nodes if nd.kind == 'stmt' and isinstance(nd.ast, ast.Return)}
        for nd in cfg.nodes:
            if nd.kind != 'stmt' or not isinstance(nd.ast, (ast.Assign, ast.AugAssign, ast.AnnAssign)):
                continue
            val = nd.ast.value
            if val is None or not carries_text(f, val):
                continue
            skip = set()
            if isinstance(nd.ast, ast.Assign) and isinstance(nd.ast.targets[0], ast.Tuple) and len(nd.ast.targets[0].elts) == 3 \
                    and isinstance(val, ast.Call) and isinstance(val.func, ast.Attribute) and val.func.attr in ('partition', 'rpartition'):
                skip.add(norm(nd.ast.targets[0].elts[1]))          # the separator itself is structure, not content
            if isinstance(nd.ast, ast.Assign) and isinstance(nd.ast.targets[0], ast.Tuple) and len(nd.ast.targets[0].elts) == 2 \
                    and isinstance(nd.ast.targets[0].elts[0], ast.Name) and isinstance(nd.ast.targets[0].elts[1], ast.Starred) \
                    and isinstance(val, ast.Call) and isinstance(val.func, ast.Attribute) and val.func.attr in ('split', 'rsplit') and val.args \
                    and try_fold(val.args[0]) == (True, '::'):
                skip.add(nd.ast.targets[0].elts[0].id)             # head, *fields = text.split('::'): what stands in front of the first "::" belongs to no field
            for name in sorted(assigned_names(nd.ast) - skip):
                def uses(n2, name=name):
                    if n2.ast is None or n2.id == nd.id:
                        return False
                    root = n2.ast
                    if n2.kind in ('cond',):
                        root = n2.ast
                    elif isinstance(root, (ast.For, ast.While, ast.If)):
                        root = getattr(root, 'test', None) or getattr(root, 'iter', None)
                    if root is None:
                        return False
                    for x in ast.walk(root):
                        if isinstance(x, ast.Name) and x.id == name and isinstance(x.ctx, ast.Load):
                            return True
                    # an augmented assignment reads its target
                    return isinstance(n2.ast, ast.AugAssign) and n2.kind == 'stmt' and norm(n2.ast.target) == name
                # a return that itself uses the name is a use; so search for a path to a return that does not pass any use
                dead_rets = {r for r in rets if not uses(cfg.nodes[r])}
                path = cfg.path_avoiding([(nd.id, None)], dead_rets, uses) if dead_rets else None
                # a re-definition without use on the way also drops the text
                key = f'{f.module.name}:{f.qualname}: {norm(nd.ast)[:60]}'
                rep.add(key, f.loc(nd.ast), 'violation' if path else 'ok',
                        f'`{name}` holds text taken from the token stream, but the function can return without using it ('
                        + ' -> '.join(repr(cfg.nodes[x]) for x in path[-4:])[:220] + '): that token disappears from the parsed result, so formatting the tree does '
                        'not reproduce the text' if path else '')
    return rep


# ---------------------------------------------------------------------------------------------
def _r98_regex_form(ctx: Ctx, rep: RuleReport) -> bool:
    """The metadata fields are found with a regular expression (<RE>.finditer(comment)).  What the writer emits for a field must be in its
    language: "::key value", and for an empty value the bare "::key" (format() writes `# ::key` then)."""
    import re as _re
    from ..rx import Lang
    m = ctx.repo.module('penman._parse')
    for fi in m.all_funcs:
        for n in walk_local(fi.node):
            if not (isinstance(n, ast.Call) and isinstance(n.func, ast.Attribute) and n.func.attr in ('finditer', 'findall') and isinstance(n.func.value, ast.Name)):
                continue
            cv = m.constants.get(n.func.value.id)
            if not (isinstance(cv, ast.Call) and norm(cv.func) == 're.compile' and cv.args):
                continue
            ok, pat = try_fold(cv.args[0], {}, ctx.repo, m)
            if not ok or not isinstance(pat, str) or '::' not in pat:
                continue
            body = pat
            look = _re.search(r'\(\?=([^()]*)\)$', pat)
            if look:
                body = pat[:look.start()]
            key = f'{fi.fq}: the field pattern {pat!r} recognises every field the writer emits'
            try:
                lang = Lang.from_pattern(body)
                missing = [smp for smp in ('::k', '::k v', '::k v w') if lang.witness_intersection(Lang.from_pattern(_re.escape(smp))) is None]
            except AnalysisError as exc:
                rep.undecided(key, fi.loc(n), str(exc)[:100])
                return True
            if '::k' in missing:
                rep.violation(key, fi.loc(n), f'the pattern needs something after the key ({body!r} does not match the text "::k"): a field without a value that ends its comment line is '
                              f'skipped. That is exactly what format() writes for an empty value ("# ::preferred"), so parsing what was written loses the key - metadata is not '
                              f'reproduced and format(parse(x)) is not a fixed point')
            elif missing:
                rep.violation(key, fi.loc(n), f'the pattern does not match {missing}: such a field is skipped')
            else:
                rep.undecided(key, fi.loc(n), 'a regular-expression scanner: its agreement with the "::"-partition scanner on every comment text is not established')
            return True
    return False


@rule('R98', 'the comment scanner records every "::key value" segment of every comment line and hands the map to the tree')
def r98(ctx: Ctx) -> RuleReport:
    rep = RuleReport('R98', r98.title, floor=3)
    cands = [f for f in ctx.repo.module('penman._parse').all_funcs
             if any(isinstance(n, ast.Call) and isinstance(n.func, ast.Attribute) and n.func.attr in ('rpartition', 'partition', 'split', 'rsplit') and n.args
                    and try_fold(n.args[0], {}, ctx.repo, f.module) == (True, '::') for n in walk_local(f.node))]
    if not cands and _r98_regex_form(ctx, rep):
        return rep
    if len(cands) != 1:
        rep.undecided('penman._parse: one function splits comment text at "::"', 'penman/_parse.py', f'{len(cands)} such functions')
        return rep
    fi = cands[0]
    stores = [n for n in walk_local(fi.node) if isinstance(n, ast.Assign) and isinstance(n.targets[0], ast.Subscript) and isinstance(n.targets[0].value, ast.Name)]
    parts = [n for n in walk_local(fi.node) if isinstance(n, ast.Assign) and isinstance(n.value, ast.Call) and isinstance(n.value.func, ast.Attribute)
             and n.value.func.attr in ('rpartition', 'partition', 'split', 'rsplit') and n.value.args and try_fold(n.value.args[0]) == (True, '::')]
    if len(stores) != 1 or len(parts) != 1 or not isinstance(parts[0].targets[0], ast.Tuple) or len(parts[0].targets[0].elts) != 3:
        rep.undecided(f'{fi.fq}: one `rest, found, segment = text.rpartition("::")` and one store metadata[key] = value', fi.loc(), f'{len(parts)} splits, {len(stores)} stores')
        return rep
    st, pt_ = stores[0], parts[0]
    rest_v, found_v, seg_v = [norm(e) for e in pt_.targets[0].elts]
    src_v = norm(pt_.value.func.value)
    md = st.targets[0].value.id
    fx = facts_ex(ctx, fi, st)
    key = f'{fi.fq}: a segment is recorded exactly when the separator "::" was found'
    pos = {f for f, pol in fx if pol}
    neg = {f for f, pol in fx if not pol}
    if found_v in neg:
        rep.violation(key, fi.loc(st), f'the store runs when `{found_v}` is false, i.e. when no "::" was found: the text in front of the first key is recorded as a key and the real keys are skipped')
    elif found_v in pos:
        rep.ok(key, fi.loc(st))
    else:
        rep.violation(key, fi.loc(st), f'the store does not depend on `{found_v}`: a comment line without any "::" (an ordinary comment) is recorded as metadata')
    # the scan goes on while text is left: the loop condition is the (positive) truth of the remaining text
    loops = [n for n in walk_local(fi.node) if isinstance(n, ast.While) and any(x is pt_ for x in ast.walk(n))]
    inner = min(loops, key=lambda n: len(list(ast.walk(n)))) if loops else None
    key = f'{fi.fq}: a line is scanned until nothing is left of it'
    if inner is None:
        rep.undecided(key, fi.loc(), 'the split is not inside a while loop')
    else:
        t = inner.test
        if rest_v == src_v and norm(t) == rest_v:
            rep.ok(key, fi.loc(inner))
        elif isinstance(t, ast.UnaryOp) and isinstance(t.op, ast.Not) and norm(t.operand) == rest_v:
            rep.violation(key, fi.loc(inner), f'the loop runs while `{rest_v}` is EMPTY: a non-empty comment is never scanned, every metadata line is lost')
        elif isinstance(t, ast.Constant):
            rep.violation(key, fi.loc(inner), f'the loop condition is the constant {t.value!r}: ' + ('the scan never ends' if t.value else 'no comment is ever scanned, every metadata line is lost'))
        else:
            rep.undecided(key, fi.loc(inner), norm(t))
    # the value is the rest of the segment after the first blank, right-stripped; the key is what precedes it
    kv = [n for n in walk_local(fi.node) if isinstance(n, ast.Assign) and isinstance(n.value, ast.Call) and isinstance(n.value.func, ast.Attribute)
          and n.value.func.attr == 'partition' and n.value.args and try_fold(n.value.args[0]) == (True, ' ') and norm(n.value.func.value) == seg_v]
    key = f'{fi.fq}: key and value are the two sides of the first blank of the segment'
    if len(kv) == 1 and isinstance(kv[0].targets[0], ast.Tuple) and len(kv[0].targets[0].elts) == 3:
        k_v, _, v_v = [norm(e) for e in kv[0].targets[0].elts]
        good = norm(st.targets[0].slice) == k_v and norm(st.value) in (f'{v_v}.rstrip()', v_v)
        swapped = norm(st.targets[0].slice) == v_v
        rep.add(key, fi.loc(st), 'ok' if good else ('violation' if swapped else 'undecided'), norm(st)[:60])
    else:
        rep.undecided(key, fi.loc(), 'no `key, _, value = segment.partition(" ")`')
    # the map that is filled is the map that is returned
    rets = [n for n in walk_local(fi.node) if isinstance(n, ast.Return)]
    key = f'{fi.fq}: returns the map it filled'
    if rets and all(r.value is not None and norm(r.value) == md for r in rets):
        rep.ok(key, fi.loc(rets[0]))
    else:
        bad = next((r for r in rets if r.value is None or norm(r.value) != md), None)
        rep.violation(key, fi.loc(bad) if bad is not None else fi.loc(), f'`{norm(bad) if bad is not None else "falls off the end"}`: the metadata read from the comments never reaches the tree')
    return rep


# ---------------------------------------------------------------------------------------------
@rule('R99', 'the four documented ways to write the comma of a triple - role(a,b) role(a, b) role(a , b) role(a ,b) - each take their target from the right place; anything else after the source is an error')
def r99(ctx: Ctx) -> RuleReport:
    rep = RuleReport('R99', r99.title, floor=4)
    fi = ctx.repo.func('penman._parse', '_parse_triple')
    parts = [n for n in walk_local(fi.node) if isinstance(n, ast.Assign) and isinstance(n.targets[0], ast.Tuple) and len(n.targets[0].elts) == 3
             and isinstance(n.value, ast.Call) and isinstance(n.value.func, ast.Attribute) and n.value.func.attr == 'partition'
             and n.value.args and try_fold(n.value.args[0]) == (True, ',')]
    if len(parts) != 1:
        rep.undecided(f'{fi.fq}: `source, comma, rest = symbol.text.partition(",")`', fi.loc(), f'{len(parts)} such splits')
        return rep
    src_v, comma_v, rest_v = [norm(e) for e in parts[0].targets[0].elts]
    # the name that is returned as the target
    rets = [n for n in walk_local(fi.node) if isinstance(n, ast.Return) and isinstance(n.value, ast.Tuple) and len(n.value.elts) == 2]
    if len(rets) != 1 or not isinstance(rets[0].value.elts[1], ast.Name):
        rep.undecided(f'{fi.fq}: returns (source, target)', fi.loc(), f'{len(rets)} returns of a pair')
        return rep
    tgt_v = rets[0].value.elts[1].id
    rep.add(f'{fi.fq}: the source is the text in front of the first comma', fi.loc(rets[0]), 'ok' if norm(rets[0].value.elts[0]) == src_v else 'undecided', norm(rets[0].value))
    accepted = {}          # token names bound from tokens.accept(...)
    for n in walk_local(fi.node):
        if isinstance(n, ast.Assign) and isinstance(n.targets[0], ast.Name) and isinstance(n.value, ast.Call) and isinstance(n.value.func, ast.Attribute) \
                and n.value.func.attr in ('accept', 'expect', 'next'):
            accepted.setdefault(n.targets[0].id, []).append(n)

    def facts(n):
        return {(f.replace(' ', ''), pol) for f, pol in facts_ex(ctx, fi, n)}
    assigns = [n for n in walk_local(fi.node) if isinstance(n, ast.Assign) and isinstance(n.targets[0], ast.Name) and n.targets[0].id == tgt_v
               and not (isinstance(n.value, ast.Constant) and n.value.value is None)]
    kinds = set()
    for a in assigns:
        fx = facts(a)
        v = a.value
        vs = norm(v).replace(' ', '')
        key = f'{fi.fq}: `{norm(a)}` is justified by what was read'
        if vs == rest_v:
            kinds.add('fused')
            ok_ = (rest_v, True) in fx
            rep.add(key, fi.loc(a), 'ok' if ok_ else 'violation', '' if ok_ else f'the rest of the symbol is used as the target although it may be empty: role(a, b) yields the target ""')
        elif isinstance(v, ast.Attribute) and v.attr == 'text' and isinstance(v.value, ast.Name) and v.value.id in accepted:
            t = v.value.id
            nonnull = (t, True) in fx or (f'{t}isnotNone', True) in fx or (f'{t}isNone', False) in fx
            after_comma = ((comma_v, True) in fx and (rest_v, False) in fx) or any(f.endswith(".text==','") and pol for f, pol in fx)
            # the token may have been read into the same name as the "," token before it: then the evidence sits at that read
            prev = [d for d in accepted[t] if d.lineno < a.lineno]
            if not after_comma and prev:
                dfx = facts(max(prev, key=lambda d: d.lineno))
                after_comma = any(f.endswith(".text==','") and pol for f, pol in dfx) or ((comma_v, True) in dfx and (rest_v, False) in dfx)
            kinds.add('next-token')
            if not nonnull:
                rep.violation(key, fi.loc(a), f'`{t}` may be None here (accept found no SYMBOL/STRING): AttributeError instead of a triple without target')
            elif not after_comma:
                rep.violation(key, fi.loc(a), f'the next token is taken as the target although no comma was seen (neither at the end of the source symbol nor as a token of its own): '
                              f'role(a b) is read as role(a, b)')
            else:
                rep.ok(key, fi.loc(a))
        elif isinstance(v, ast.Subscript) and isinstance(v.value, ast.Attribute) and v.value.attr == 'text' and isinstance(v.value.value, ast.Name) \
                and isinstance(v.slice, ast.Slice) and v.slice.lower is not None and try_fold(v.slice.lower) == (True, 1) and v.slice.upper is None:
            t = v.value.value.id
            kinds.add('glued')
            lead = (f"{t}.text.startswith(',')", True) in fx or (f"{t}.text[0]==','", True) in fx
            nonnull = (t, True) in fx or (f'{t}isnotNone', True) in fx
            if not lead:
                rep.violation(key, fi.loc(a), f'the first character of `{t}.text` is cut off although it is not known to be the comma: role(a b) is read as role(a, <b without its first letter>) '
                              f'instead of being rejected')
            elif not nonnull:
                rep.violation(key, fi.loc(a), f'`{t}` may be None here')
            else:
                rep.ok(key, fi.loc(a))
        elif isinstance(v, ast.Call) and isinstance(v.func, ast.Attribute) and v.func.attr in ('lstrip', 'strip', 'replace') and isinstance(v.func.value, ast.Attribute) \
                and v.func.value.attr == 'text' and v.args and try_fold(v.args[0]) == (True, ','):
            kinds.add('glued')
            rep.violation(key, fi.loc(a), f'`{norm(v)}` removes every leading comma (or every comma), not the one separator: role(a ,,b) gives the target "b" although the fused spelling '
                          f'role(a,,b) gives ",b" - the spacing variants no longer parse to the same triples')
        else:
            rep.undecided(key, fi.loc(a), vs[:50])
    for want, what in (('fused', 'role(a,b)'), ('next-token', 'role(a, b) / role(a , b)'), ('glued', 'role(a ,b)')):
        if want not in kinds:
            rep.undecided(f'{fi.fq}: the spelling {what} is handled', fi.loc(), 'no assignment of that form found')
    # a second symbol that is neither "," nor ",x" is an error at that token
    raises = [n for n in walk_local(fi.node) if isinstance(n, ast.Raise)]
    key = f'{fi.fq}: a token after the source that does not begin with a comma is rejected, at that token'
    good = None
    for r in raises:
        fx = facts(r)
        toks = [t for t in accepted if (t, True) in fx or (f'not{t}', False) in fx]
        for t in toks:
            if (f"{t}.text==','", False) in fx and (f"{t}.text.startswith(',')", False) in fx:
                good = (r, t)
    if good is None:
        if raises:
            rep.undecided(key, fi.loc(raises[0]), 'the raise is not under `tok.text != ","` and `not tok.text.startswith(",")`')
        else:
            rep.violation(key, fi.loc(), 'there is no raise left in the function: role(a b) is accepted (the second symbol is silently dropped), although the documented forms all have a comma')
    else:
        r, t = good
        call = r.exc if isinstance(r.exc, ast.Call) else None
        tokarg = None
        if call is not None:
            tokarg = next((k.value for k in call.keywords if k.arg == 'token'), call.args[1] if len(call.args) > 1 else None)
        if tokarg is not None and norm(tokarg) == t:
            rep.ok(key, fi.loc(r))
        elif call is not None and tokarg is None:
            rep.violation(key, fi.loc(r), f'the error is raised without token=: it is reported at the end of the last token read instead of at `{t}`, the token that does not fit '
                          f'(line and column of the DecodeError are wrong)')
        else:
            rep.undecided(key, fi.loc(r), norm(r)[:60])
    return rep


# ---------------------------------------------------------------------------------------------
@rule('R148', 'the parser never replaces text it has read by a constant because of what the text says (a symbol spelled None, null, - ... is a symbol)')
def r148(ctx: Ctx) -> RuleReport:
    rep = RuleReport('R148', r148.title, floor=0)
    n = 0
    funcs = list(ctx.repo.all_functions()) if getattr(ctx, '_is_probe', False) else list(ctx.repo.module('penman._parse').all_funcs)
    for fi in funcs:
        for st in walk_local(fi.node):
            if not (isinstance(st, ast.Assign) and len(st.targets) == 1 and isinstance(st.targets[0], ast.Name) and isinstance(st.value, ast.Constant)):
                continue
            x = st.targets[0].id
            for f, pol in facts_ex(ctx, fi, st):
                try:
                    e = ast.parse(f, mode='eval').body
                except SyntaxError:
                    continue
                if isinstance(e, ast.Compare) and len(e.ops) == 1 and isinstance(e.ops[0], (ast.Eq, ast.In)) and pol and norm(e.left) == x:
                    okc, cv = try_fold(e.comparators[0])
                    if okc and (isinstance(cv, str) and cv != '' or (isinstance(cv, (tuple, list, set, frozenset)) and cv and all(isinstance(y, str) and y for y in cv))):
                        n += 1
                        rep.violation(f'{fi.fq}: `{norm(st)}` under `{f}`', fi.loc(st), f'when the text that was read is {cv!r} it is replaced by {st.value.value!r}: a symbol with that '
                                      f'spelling is legal in the notation ("(n / None)", ":value None") and no longer comes back as what was written - the triple conjunction '
                                      f'"instance(n, None)" is read as a triple without target')
    rep.analysed['replacements'] = n
    return rep
