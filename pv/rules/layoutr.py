"""Layout rules: R1 (triples and epidata stay in step), R5 (interpretation honours the model's
deinvert hook), R36 (Push/POP pairing), R26 (rearrange only permutes), R27 (only layout markers are
stripped), R44 (appears_inverted answers False only for the documented reasons), R47 (reconfigure
keeps the top when it reorders triples)."""
from __future__ import annotations

import ast
from typing import Dict, List, Optional, Set, Tuple

from ..cfg import CFG, Node, assigned_names, cond_facts, facts_at, owner_node
from ..core import Ctx, RuleReport, rule
from ..src import AnalysisError, FuncInfo, norm, try_fold, walk_local
from ..resolve import expand
from .lexical import single_def
from .transformr import may_unproven

L = 'penman.layout'


def _ancestors(pm, node):
    n = node
    while id(n) in pm:
        n = pm[id(n)]
        yield n


def _recv_call(n: ast.AST, attr: str) -> Optional[str]:
    """'x' if n is x.<attr>(...) with x a plain name."""
    if isinstance(n, ast.Call) and isinstance(n.func, ast.Attribute) and n.func.attr == attr and isinstance(n.func.value, ast.Name):
        return n.func.value.id
    return None


def _list_initialised(fi: FuncInfo, name: str) -> bool:
    for n in walk_local(fi.node):
        if isinstance(n, (ast.Assign, ast.AnnAssign)) and n.value is not None:
            tg = n.targets if isinstance(n, ast.Assign) else [n.target]
            if any(isinstance(t, ast.Name) and t.id == name for t in tg) and \
                    (isinstance(n.value, ast.List) or (isinstance(n.value, ast.Call) and norm(n.value.func) == 'list')):
                return True
    return False


def _triple_and_epidata_lists(fi: FuncInfo) -> Tuple[str, str]:
    """Names of the triple list and the epidata list of _interpret_node: the returned (var, triples, epidata), or -
    when the lists are accumulators handed down the recursion - the receivers of `T.append(x)` / `E.append((x, markers))`."""
    rets = [n for n in walk_local(fi.node) if isinstance(n, ast.Return) and n.value is not None]
    if len(rets) == 1 and isinstance(rets[0].value, ast.Tuple) and len(rets[0].value.elts) == 3 \
            and all(isinstance(e, ast.Name) for e in rets[0].value.elts):
        return rets[0].value.elts[1].id, rets[0].value.elts[2].id
    if len(rets) == 1 and isinstance(rets[0].value, ast.Call) and len(rets[0].value.args) == 3 and not rets[0].value.keywords \
            and all(isinstance(e, ast.Name) for e in rets[0].value.args) and isinstance(rets[0].value.func, ast.Name):
        return rets[0].value.args[1].id, rets[0].value.args[2].id          # a namedtuple of (var, triples, epidata)
    if len(rets) == 1 and isinstance(rets[0].value, ast.Tuple) and len(rets[0].value.elts) == 2 \
            and all(isinstance(e, ast.Name) for e in rets[0].value.elts):
        a_, b_ = rets[0].value.elts[0].id, rets[0].value.elts[1].id
        if not _list_initialised(fi, a_) and _list_initialised(fi, b_):
            return None, b_                 # (var, pairs): one list of (triple, markers) pairs, the triples are derived from it
        return a_, b_
    singles: Dict[str, Set[str]] = {}
    pairs: Dict[str, Set[str]] = {}
    for n in walk_local(fi.node):
        r = _recv_call(n, 'append')
        if r and n.args:
            a = n.args[0]
            if isinstance(a, ast.Name):
                singles.setdefault(a.id, set()).add(r)
            elif isinstance(a, ast.Tuple) and len(a.elts) == 2 and isinstance(a.elts[0], ast.Name):
                pairs.setdefault(a.elts[0].id, set()).add(r)
    cands = {(t, e) for x in singles if x in pairs for t in singles[x] for e in pairs[x] if t != e}
    if len(cands) != 1:
        raise AnalysisError(f'_interpret_node: cannot identify the triple list and the epidata list ({sorted(cands)})')
    t, e = next(iter(cands))
    if t not in fi.params or e not in fi.params:
        raise AnalysisError('_interpret_node: the lists are neither returned nor accumulator parameters')
    return t, e


def _r1_single(ctx: Ctx, rep: RuleReport, fi: FuncInfo, En: str, rec) -> None:
    """One list of (triple, markers) pairs and nothing beside it: the two sequences cannot drift apart inside the recursion; what is left
    to check is that every entry is such a pair, that nested results are spliced in whole, and that the caller derives the triple list
    from the pairs in order."""
    n_ops = 0
    for n in walk_local(fi.node):
        if isinstance(n, (ast.AugAssign, ast.Delete)) and En in norm(n).split('=')[0]:
            rep.undecided(f'{fi.fq}: {norm(n)[:80]}', fi.loc(n), 'the pair list is changed by a statement that is not read')
        if not (isinstance(n, ast.Call) and isinstance(n.func, ast.Attribute) and norm(n.func.value) == En):
            continue
        key = f'{fi.fq}: {norm(n)[:80]}'
        kind = n.func.attr
        if kind in ('append', 'insert') and len(n.args) == (1 if kind == 'append' else 2):
            payload = n.args[-1]
            n_ops += 1
            if isinstance(payload, ast.Tuple) and len(payload.elts) == 2:
                rep.ok(key, fi.loc(n), 'a (triple, markers) pair: triple and markers are one entry')
            else:
                rep.undecided(key, fi.loc(n), f'entry is not written as a pair: {norm(payload)[:50]}')
        elif kind == 'extend' and len(n.args) == 1:
            n_ops += 1
            if rec.get(norm(n.args[0]), (0, 0))[1] == 2:
                rep.ok(key, fi.loc(n), 'the pairs of the nested node, whole and in order')
            else:
                rep.undecided(key, fi.loc(n), f'origin of `{norm(n.args[0])[:40]}` not recognised')
        elif kind in ('pop', 'remove', 'sort', 'reverse', 'clear'):
            rep.undecided(key, fi.loc(n), 'the pair list is reordered or shortened')
    if n_ops < 3:
        raise AnalysisError(f'_interpret_node: only {n_ops} list updates recognised')
    # the caller: triples = [t for t, _ in pairs]
    it = ctx.repo.func(L, 'interpret')
    key = 'penman.layout:interpret: the triple list is derived from the pairs, in order and complete'
    pairs_names = set()
    for n in walk_local(it.node):
        if isinstance(n, ast.Assign) and isinstance(n.targets[0], ast.Tuple) and len(n.targets[0].elts) == 2 and isinstance(n.value, ast.Call) \
                and norm(n.value.func) == fi.name and isinstance(n.targets[0].elts[1], ast.Name):
            pairs_names.add(n.targets[0].elts[1].id)
    derived = []
    for n in walk_local(it.node):
        if isinstance(n, (ast.ListComp, ast.GeneratorExp)) and len(n.generators) == 1 and norm(n.generators[0].iter) in pairs_names:
            g = n.generators[0]
            first = (isinstance(g.target, ast.Tuple) and len(g.target.elts) == 2 and norm(n.elt) == norm(g.target.elts[0])) or \
                (isinstance(g.target, ast.Name) and norm(n.elt) == f'{g.target.id}[0]')
            if first:
                derived.append((n, g))
    if len(derived) == 1 and not derived[0][1].ifs:
        rep.ok(key, it.loc(derived[0][0]), norm(derived[0][0])[:70])
    elif len(derived) == 1:
        rep.violation(key, it.loc(derived[0][0]), f'`{norm(derived[0][0])[:70]}` filters the pairs: some triples of the tree are not in the graph while their markers are')
    else:
        rep.undecided(key, it.loc(), f'{len(derived)} derivations of the triple list found')


@rule('R1', 'interpretation records epidata in step with the triple list (same order, same operations)')
def r1(ctx: Ctx) -> RuleReport:
    rep = RuleReport('R1', r1.title, floor=5)
    fi = ctx.repo.func(L, '_interpret_node')
    Tn, En = _triple_and_epidata_lists(fi)
    single = Tn is None
    NRES = 2 if single else 3
    # recursive results
    rec: Dict[str, Tuple[int, int]] = {}      # name -> (call id, slot); the epidata slot is numbered 2 in both forms
    def _slot(i):
        return i + 1 if single and i == 1 else i
    for n in walk_local(fi.node):
        if isinstance(n, ast.Assign) and isinstance(n.targets[0], ast.Tuple) and len(n.targets[0].elts) == NRES \
                and isinstance(n.value, ast.Call) and norm(n.value.func) == fi.name:
            for i, e in enumerate(n.targets[0].elts):
                if isinstance(e, ast.Name):
                    rec[e.id] = (id(n.value), _slot(i))
    # nested = _interpret_node(...);  nested[1] / nested[2], possibly through names:  a, b = nested[1], nested[2]
    whole: Dict[str, int] = {}
    for n in walk_local(fi.node):
        if isinstance(n, ast.Assign) and len(n.targets) == 1 and isinstance(n.targets[0], ast.Name) and isinstance(n.value, ast.Call) and norm(n.value.func) == fi.name:
            whole[n.targets[0].id] = id(n.value)
            for i in range(NRES):
                rec[f'{n.targets[0].id}[{i}]'] = (id(n.value), _slot(i))
    for n in walk_local(fi.node):
        if isinstance(n, ast.Assign) and len(n.targets) == 1:
            pairs_ = []
            if isinstance(n.targets[0], ast.Name):
                pairs_ = [(n.targets[0], n.value)]
            elif isinstance(n.targets[0], ast.Tuple) and isinstance(n.value, ast.Tuple) and len(n.targets[0].elts) == len(n.value.elts):
                pairs_ = list(zip(n.targets[0].elts, n.value.elts))
            for t_, v_ in pairs_:
                if isinstance(t_, ast.Name) and isinstance(v_, ast.Subscript) and isinstance(v_.value, ast.Name) and v_.value.id in whole:
                    oki, idx = try_fold(v_.slice)
                    if oki and isinstance(idx, int) and len(ctx.cg.local_assigns(fi).get(t_.id, [])) == 1:
                        rec[t_.id] = (whole[v_.value.id], _slot(idx))
    # a named result:  nested = _interpret_node(...);  nested.triples / nested.epidata
    rets_ = [n for n in walk_local(fi.node) if isinstance(n, ast.Return) and isinstance(n.value, ast.Call) and isinstance(n.value.func, ast.Name)]
    if rets_ and rets_[0].value.func.id in fi.module.classes:
        cdef = fi.module.classes[rets_[0].value.func.id].node
        fields = [b.target.id for b in cdef.body if isinstance(b, ast.AnnAssign) and isinstance(b.target, ast.Name)]
        for n in walk_local(fi.node):
            if isinstance(n, ast.Assign) and isinstance(n.targets[0], ast.Name) and isinstance(n.value, ast.Call) and norm(n.value.func) == fi.name:
                for i, f_ in enumerate(fields):
                    rec[f'{n.targets[0].id}.{f_}'] = (id(n.value), i)
    cfg = CFG(fi.node)
    pm = ctx.repo.parent_map(fi.node)

    if single:
        _r1_single(ctx, rep, fi, En, rec)
    else:
        def op_of(node: Node):
            """('T'|'E', kind, term) for a list update evaluated at this node, else None."""
            if node.kind != 'stmt' or not isinstance(node.ast, ast.Expr) or not isinstance(node.ast.value, ast.Call):
                return None
            c = node.ast.value
            for kind in ('append', 'extend', 'insert'):
                r = _recv_call(c, kind)
                if r in (Tn, En):
                    side = 'T' if r == Tn else 'E'
                    args = c.args
                    if kind == 'insert':
                        if len(args) != 2:
                            raise AnalysisError('insert with unexpected arity')
                        ok, pos = try_fold(args[0])
                        payload = args[1]
                        kindk = f'insert@{pos if ok else norm(args[0])}'
                    else:
                        payload = args[0]
                        kindk = kind
                    if kind == 'extend':
                        term = ('rec',) + rec.get(norm(payload), (norm(payload), -1))
                    elif side == 'E':
                        if not (isinstance(payload, ast.Tuple) and len(payload.elts) == 2):
                            raise AnalysisError(f'_interpret_node: epidata entry is not a (triple, markers) pair: {norm(payload)}')
                        term = ('one', norm(payload.elts[0]))
                    else:
                        term = ('one', norm(payload))
                    return side, kindk, term
            return None

        ops = {nd.id: op_of(nd) for nd in cfg.nodes}
        n_ops = sum(1 for v in ops.values() if v)
        # forward analysis: state = None (balanced) or the pending op; conflicts are collected
        problems: List[Tuple[int, str]] = []
        unknown_pairs: List[Tuple[int, str]] = []

        def matches(a, b) -> bool:
            (s1, k1, t1), (s2, k2, t2) = a, b
            if s1 == s2 or k1 != k2:
                return False
            if t1[0] == 'one' and t2[0] == 'one':
                return t1[1] == t2[1]
            if t1[0] == 'rec' and t2[0] == 'rec':
                # same recursive call, slots 1 (triples) and 2 (epidata)
                tt, ee = (t1, t2) if s1 == 'T' else (t2, t1)
                return tt[1] == ee[1] and tt[2] == 1 and ee[2] == 2
            return False

        BAL = ('balanced',)
        IN: Dict[int, Set[tuple]] = {cfg.entry: {BAL}}
        work = [cfg.entry]
        seen_problem = set()
        while work:
            n = work.pop()
            node = cfg.nodes[n]
            outs = set()
            for st in IN[n]:
                o = ops.get(n)
                if o is None:
                    if st != BAL and st[3][0] == 'one' and node.kind == 'stmt' and node.ast is not None and st[3][1] in assigned_names(node.ast) \
                            and (n, 'rebind') not in seen_problem:
                        seen_problem.add((n, 'rebind'))
                        problems.append((n, f'`{norm(node.ast)[:60]}` re-binds `{st[3][1]}` between its entry in one list and its entry in the other: the marker list is recorded under the '
                                            f'triple as written, the triple list holds the de-inverted one, so the markers (alignments included) belong to a triple that is not in the graph'))
                    outs.add(st)
                elif st == BAL:
                    outs.add(('pending',) + o)
                else:
                    pend = st[1:]
                    if matches(pend, o):
                        outs.add(BAL)
                    else:
                        unknown_src = any(t_[0] == 'rec' and t_[2] == -1 for t_ in (pend[2], o[2]))
                        if (n, pend, o) not in seen_problem:
                            seen_problem.add((n, pend, o))
                            if unknown_src and pend[0] != o[0] and pend[1] == o[1]:
                                unknown_pairs.append((n, f'`{norm(node.ast)[:70]}` extends with a list whose origin is not recognised'))
                            else:
                                problems.append((n, f'`{Tn if pend[0] == "T" else En}.{pend[1]}({pend[2][1] if pend[2][0] == "one" else "…"})` '
                                                    f'is answered by `{norm(node.ast)[:70]}`'))
                        outs.add(BAL)
            for m, lab in cfg.succ[n]:
                # at loop heads and at the return the two lists must be level
                tgt = cfg.nodes[m]
                if (tgt.kind in ('for', 'loophead') or (tgt.kind == 'stmt' and isinstance(tgt.ast, ast.Return))):
                    for st in outs:
                        if st != BAL and (m, st) not in seen_problem:
                            seen_problem.add((m, st))
                            problems.append((n, f'`{Tn if st[1] == "T" else En}.{st[2]}(...)` has no counterpart before {tgt!r}'))
                if not outs <= IN.get(m, set()):
                    IN.setdefault(m, set()).update(outs)
                    work.append(m)
        if n_ops < 4:
            raise AnalysisError(f'_interpret_node: only {n_ops} list updates recognised')
        for nd in cfg.nodes:
            o = ops.get(nd.id)
            if o and o[0] == 'T':
                bad = [msg for n, msg in problems if n == nd.id]
                key = f'penman.layout:_interpret_node: {norm(nd.ast)[:80]}'
                # a problem is reported at the node that answers wrongly; attribute it to the T-op it answers
                rep.add(key, fi.loc(nd.ast), 'ok', 'paired with the same operation on the epidata list') if not bad else None
        for n, msg in unknown_pairs:
            nd = cfg.nodes[n]
            rep.undecided(f'penman.layout:_interpret_node: {norm(nd.ast)[:80]}', fi.loc(nd.ast), msg)
        for n, msg in problems:
            nd = cfg.nodes[n]
            rep.violation(f'penman.layout:_interpret_node: {norm(nd.ast)[:80]}', fi.loc(nd.ast),
                          f'{msg}: triples[i] and epidata[i] drift apart, so the POP closing a nested node lands on the wrong '
                          f'triple (decode then encode changes the nesting)')
    # consumer takes the entries pairwise
    from ..resolve import expand, local_callees
    it = ctx.repo.func(L, 'interpret')
    zipped = any(isinstance(n, ast.For) and isinstance(n.target, ast.Tuple) and len(n.target.elts) == 2
                 for f in local_callees(ctx, it, depth=1) if f.fq != fi.fq for n in walk_local(f.node))
    # dict(<pairs>) / {t: e for t, e in <pairs>} also pair them up, but a later pair replaces an earlier one with the same key
    lastwins = None
    for f in local_callees(ctx, it, depth=1):
        if f.fq == fi.fq:
            continue
        for n in walk_local(f.node):
            if isinstance(n, ast.Call) and norm(n.func) == 'dict' and len(n.args) == 1 and not n.keywords and isinstance(n.args[0], ast.Name) \
                    and 'epi' in n.args[0].id.lower():
                lastwins = (f, n)
            if isinstance(n, ast.DictComp) and len(n.generators) == 1 and isinstance(n.generators[0].target, ast.Tuple) and len(n.generators[0].target.elts) == 2 \
                    and isinstance(n.generators[0].iter, ast.Name) and 'epi' in n.generators[0].iter.id.lower() and not n.generators[0].ifs:
                lastwins = (f, n)
    if zipped and not lastwins:
        # the loop form: the store under a triple is made only when the triple has no entry yet (first statement wins)
        from ..resolve import facts_ex
        for f in local_callees(ctx, it, depth=1):
            if f.fq == fi.fq:
                continue
            for lp in walk_local(f.node):
                if not (isinstance(lp, ast.For) and isinstance(lp.target, ast.Tuple) and len(lp.target.elts) == 2 and isinstance(lp.target.elts[0], ast.Name)):
                    continue
                tv = lp.target.elts[0].id
                for st_ in ast.walk(lp):
                    if isinstance(st_, ast.Assign) and isinstance(st_.targets[0], ast.Subscript) and norm(st_.targets[0].slice) == tv \
                            and isinstance(st_.targets[0].value, ast.Name):
                        mp = st_.targets[0].value.id
                        fx = {(x.replace(' ', ''), pol) for x, pol in facts_ex(ctx, f, st_)}
                        first_wins = (f'{tv}in{mp}', False) in fx or (f'{tv}notin{mp}', True) in fx
                        if not first_wins:
                            lastwins = (f, st_)
        if lastwins:
            zipped = False
    if lastwins and not zipped:
        f, n = lastwins
        rep.violation('penman.layout:interpret: epidata entries are consumed pairwise (triple, markers)', f.loc(n),
                      f'`{norm(n)[:60]}` keeps, for a triple that the text states twice, the markers of its LAST statement (a later pair replaces an earlier one); the '
                      f'interpreter is specified to keep those of the first. Both copies of the triple are then laid out with the last copy\'s markers: if that copy closes '
                      f'its node (POP), the node is closed at the first copy and the second is re-attached elsewhere - the output is not reproduced when fed back')
    else:
        rep.add('penman.layout:interpret: epidata entries are consumed pairwise (triple, markers)', it.loc(), 'ok' if zipped else 'undecided')
    # the POP goes to the last entry of the nested result
    pops = [n for n in walk_local(fi.node) if isinstance(n, ast.Call) and isinstance(n.func, ast.Attribute) and n.func.attr == 'append'
            and n.args and norm(n.args[0]) in ('POP', 'Pop()')]
    if not pops:
        rep.undecided('penman.layout:_interpret_node: POP is attached to the last epidata entry of the nested node', fi.loc(), 'no POP is appended')
    for p in pops:
        recv = expand(ctx, fi, p.func.value, p)
        key = 'penman.layout:_interpret_node: POP is attached to the last epidata entry of the nested node'
        base = recv.value.value if isinstance(recv, ast.Subscript) and isinstance(recv.value, ast.Subscript) else None
        shared = En in fi.params and any(isinstance(c, ast.Call) and norm(c.func) == fi.name and any(norm(a) == En for a in c.args)
                                         for c in walk_local(fi.node))
        raw = p.func.value
        raw_base = raw.value.value if isinstance(raw, ast.Subscript) and isinstance(raw.value, ast.Subscript) else None
        if raw_base is not None and rec.get(norm(raw_base), (0, 0))[1] == 2:
            base, recv = raw_base, raw
        shape = base is not None and (rec.get(norm(base), (0, 0))[1] == 2 or (shared and norm(base) == En) or (
            isinstance(base, ast.Subscript) and isinstance(base.value, ast.Call) and norm(base.value.func) == fi.name
            and try_fold(base.slice) == (True, NRES - 1)))
        if not shape:
            # `epidata.extend(_epis)` directly followed by `epidata[-1][1].append(POP)`: the last entry of the own list is then the last entry of the nested
            # node (which is never empty: every node yields at least its instance triple)
            blk_par = pm.get(id(pm.get(id(p))))
            prev_ok = False
            raw_ = p.func.value
            if isinstance(raw_, ast.Subscript) and isinstance(raw_.value, ast.Subscript) and norm(raw_.value.value) == En \
                    and try_fold(raw_.value.slice) == (True, -1) and try_fold(raw_.slice) == (True, 1):
                for fld in ('body', 'orelse'):
                    seq = getattr(blk_par, fld, None)
                    stp = pm.get(id(p))
                    if isinstance(seq, list) and stp in seq and seq.index(stp) > 0:
                        prev = seq[seq.index(stp) - 1]
                        if isinstance(prev, ast.Expr) and isinstance(prev.value, ast.Call) and _recv_call(prev.value, 'extend') == En and prev.value.args \
                                and rec.get(norm(prev.value.args[0]), (0, 0))[1] == 2:
                            prev_ok = True
            if prev_ok:
                rep.ok(key, fi.loc(p), f'{En}[-1][1] right after {En}.extend(<markers of the nested node>)')
                continue
            rep.undecided(key, fi.loc(p), norm(recv)[:60])
            continue
        ok_i, idx = try_fold(recv.value.slice)
        ok_j, slot = try_fold(recv.slice)
        if ok_i and ok_j and (idx, slot) == (-1, 1):
            rep.ok(key, fi.loc(p), norm(recv))
        elif ok_i and ok_j and isinstance(idx, int) and slot == 1:
            rep.violation(key, fi.loc(p), f'POP is appended to entry [{idx}] of the nested node\'s epidata, not to its last entry: '
                          f'the node is closed after the wrong triple whenever it has more than one')
        else:
            rep.undecided(key, fi.loc(p), norm(recv)[:60])
    return rep


@rule('R1b', 'a node without a concept gets the null-concept instance triple as its first triple')
def r1b(ctx: Ctx) -> RuleReport:
    rep = RuleReport('R1b', r1b.title, floor=2)
    fi = ctx.repo.func(L, '_interpret_node')
    cfg = CFG(fi.node)
    IN = cond_facts(cfg)
    pm = ctx.repo.parent_map(fi.node)
    Tn, En_ = _triple_and_epidata_lists(fi)
    single = Tn is None
    if single:
        Tn = En_

    def _entry(a):
        # in the single-list form an entry is the pair (triple, markers)
        if single:
            a = single_def(ctx, fi, a)
            return a.elts[0] if isinstance(a, ast.Tuple) and len(a.elts) == 2 else a
        return a
    found = False
    for n in walk_local(fi.node):
        if _recv_call(n, 'insert') == Tn:
            ok, pos = try_fold(n.args[0])
            payload = single_def(ctx, fi, _entry(n.args[1]))
            is_inst = isinstance(payload, ast.Tuple) and len(payload.elts) == 3 and norm(payload.elts[1]) == 'CONCEPT_ROLE' \
                and isinstance(payload.elts[2], ast.Constant) and payload.elts[2].value is None
            if is_inst:
                found = True
                facts = facts_at(cfg, IN, pm, n)
                first = ok and pos == 0
                if not first and isinstance(n.args[0], ast.Name):
                    # shared accumulator: the position recorded on entry, before this node appended anything
                    d = single_def(ctx, fi, n.args[0])
                    loops_ = [x for x in fi.node.body if isinstance(x, ast.For)]
                    defst = next((x for x in fi.node.body if isinstance(x, ast.Assign) and norm(x.targets[0]) == n.args[0].id), None)
                    first = isinstance(d, ast.Call) and norm(d) == f'len({Tn})' and defst is not None and loops_ \
                        and defst.lineno < loops_[0].lineno and Tn in fi.params
                rep.add('penman.layout:_interpret_node: the synthetic instance triple is listed first', fi.loc(n),
                        'ok' if first else 'undecided', f'inserted at {norm(n.args[0])}')
                if ('has_concept', False) in facts:
                    rep.ok('penman.layout:_interpret_node: it is added exactly when no concept branch was seen', fi.loc(n))
                else:
                    # the decision is read off a list that also holds the triples of the nested nodes?
                    scan = None
                    for f_, pol_ in facts:
                        try:
                            fe = ast.parse(f_, mode='eval').body
                        except SyntaxError:
                            continue
                        for g_ in [x for x in ast.walk(fe) if isinstance(x, ast.comprehension)]:
                            if norm(g_.iter) == Tn:
                                scan = f_
                    nested_in = [x for x in walk_local(fi.node) if isinstance(x, ast.Call) and isinstance(x.func, ast.Attribute) and x.func.attr in ('extend', '__iadd__')
                                 and norm(x.func.value) == Tn]
                    if scan and nested_in:
                        rep.violation('penman.layout:_interpret_node: it is added exactly when no concept branch was seen', fi.loc(n),
                                      f'whether the node has a concept is read off `{Tn}` (`{scan[:70]}`), but `{norm(nested_in[0])[:40]}` also puts the triples of every nested node '
                                      f'there: an instance triple with the same source further down - "(a :ARG0 (b / beta :ARG1 (a / alpha)))", or an inverted ":instance-of a" that was '
                                      f'deinverted - is taken for this node\'s concept, and the node loses its (a :instance None) triple')
                    else:
                        rep.undecided('penman.layout:_interpret_node: it is added exactly when no concept branch was seen', fi.loc(n))
        if _recv_call(n, 'append') == Tn:
            payload = single_def(ctx, fi, _entry(n.args[0]))
            if isinstance(payload, ast.Tuple) and len(payload.elts) == 3 and norm(payload.elts[1]) == 'CONCEPT_ROLE' \
                    and isinstance(payload.elts[2], ast.Constant) and payload.elts[2].value is None:
                found = True
                rep.violation('penman.layout:_interpret_node: the synthetic instance triple is listed first', fi.loc(n),
                              'the null-concept instance triple is appended after the node\'s other triples')
    if not found:
        rep.undecided('penman.layout:_interpret_node: a synthetic (var, :instance, None) triple exists', fi.loc(),
                      'a node without a concept would have no instance triple')
    # has_concept is set from the role of every branch
    sets = [n for n in walk_local(fi.node) if isinstance(n, (ast.AugAssign, ast.Assign)) and 'has_concept' in assigned_names(n)]
    good = any(isinstance(n, ast.AugAssign) and isinstance(n.op, ast.BitOr) and 'CONCEPT_ROLE' in norm(n.value) for n in sets) or \
        any(isinstance(n, ast.Assign) and try_fold(n.value) == (True, True) for n in sets)
    if not good:
        from ..resolve import expand
        loops = [n for n in walk_local(fi.node) if isinstance(n, ast.For)]
        in_loop = [n for n in sets if any(any(x is n for x in ast.walk(lp)) for lp in loops)]
        fixed = []
        for n in sets:
            v = expand(ctx, fi, n.value, n)
            fixed += [x for x in ast.walk(v) if isinstance(x, ast.Subscript) and isinstance(x.slice, ast.Constant) and isinstance(x.slice.value, int)
                      and isinstance(x.value, ast.Name)]
        if not in_loop and fixed:
            rep.violation('penman.layout:_interpret_node: has_concept accumulates over the branches', fi.loc(sets[0]),
                          f'has_concept is computed once from `{norm(fixed[0])}` and never updated in the branch loop: an instance branch written in a later '
                          f'position (":instance" is an ordinary role in the notation) is not seen, so the node gets a second, null-concept instance triple')
            return rep
    rep.add('penman.layout:_interpret_node: has_concept accumulates over the branches', fi.loc(), 'ok' if good else 'undecided')
    return rep


@rule('R5', 'tree interpretation deinverts only through Model.deinvert (the hook the no-op model overrides)')
def r5(ctx: Ctx) -> RuleReport:
    rep = RuleReport('R5', r5.title, floor=2)
    root = ctx.repo.func(L, 'interpret')
    funcs = [f for f in ctx.cg.reachable([root]) if f.module.name == L]
    overridden = set()
    model = ctx.repo.cls('penman.model', 'Model')
    for sub in ctx.repo.subclasses(model):
        overridden |= set(sub.methods)
    rep.analysed['model_methods_overridden_by_shipped_subclasses'] = sorted(overridden)
    rep.analysed['functions'] = sorted(f.qualname for f in funcs)
    if 'deinvert' not in overridden:
        raise AnalysisError('R5: no shipped Model subclass overrides deinvert any more')
    for f in funcs:
        for call, ts in ctx.cg.calls_in(f):
            names = {t.func.qualname for t in ts if t.kind == 'func'}
            key = f'{f.module.name}:{f.qualname}: {norm(call)[:70]}'
            if any(q.endswith('.deinvert') for q in names):
                rep.ok(key, f.loc(call), 'goes through the hook')
            elif 'Model.invert' in names:
                rep.violation(key, f.loc(call),
                              'interpretation inverts a triple by calling Model.invert directly (a hand-inlined deinvert): '
                              'NoOpModel.deinvert is bypassed, so the no-op model deinverts although it is documented not to')
            elif 'Model.invert_role' in names:
                rep.violation(key, f.loc(call), 'interpretation rewrites a role with invert_role, bypassing Model.deinvert')
    # the edge to a NESTED node reaches the hook whatever the variable set says: the empty node "()" has the variable None, which Tree.nodes() leaves out
    from ..resolve import facts_ex as _fx5
    inode = ctx.repo.maybe_func(L, '_interpret_node')
    if inode is not None:
        for call, ts in ctx.cg.calls_in(inode):
            hs = [t.func for t in ts if t.kind == 'func' and t.func.module.name == L and t.func.fq != inode.fq]
            if len(hs) != 1 or not call.args:
                continue
            h = hs[0]
            a0 = call.args[0]
            nested = isinstance(a0, ast.Tuple) and len(a0.elts) == 3 and isinstance(a0.elts[2], ast.Subscript) and try_fold(a0.elts[2].slice) == (True, 0) \
                and (f'is_atomic({norm(a0.elts[2].value)})', False) in _fx5(ctx, inode, call)
            if not nested or not h.positional:
                continue
            pn = h.positional[0]
            slot2 = {f'{pn}[2]'} | {norm(n_.targets[0].elts[2]) for n_ in walk_local(h.node) if isinstance(n_, ast.Assign) and isinstance(n_.targets[0], ast.Tuple)
                                      and len(n_.targets[0].elts) == 3 and norm(n_.value) == pn}
            for c2, ts2 in ctx.cg.calls_in(h):
                if any(t.kind == 'func' and t.func.qualname.endswith('.deinvert') for t in ts2):
                    guard = next((f for f, pol in _fx5(ctx, h, c2) if pol and any(f.startswith(f'{x} in ') for x in slot2)), None)
                    key = f'{inode.fq}: the edge to a nested node is handed to Model.deinvert unconditionally'
                    if guard:
                        rep.violation(key, inode.loc(call), f'`{norm(call)[:50]}` sends the edge to a nested node through {h.qualname}, which calls Model.deinvert only when `{guard}`. '
                                      f'The variable of a nested node is not always in that set: the empty node "()" has the variable None, and Tree.nodes() leaves it out - '
                                      f'"(a :ARG0-of ())" then keeps the triple (a :ARG0-of None) instead of (None :ARG0 a), as if the node were a constant')
                    else:
                        rep.ok(key, inode.loc(call))
    # neither direction of the layout ever canonicalises a role: normalisations (AMR :mod-of -> :domain) denote another triple
    for root2 in (ctx.repo.func(L, 'interpret'), ctx.repo.func(L, 'configure'), ctx.repo.func(L, 'reconfigure')):
        for f in [x for x in ctx.cg.reachable([root2]) if x.module.name == L]:
            for call, ts in ctx.cg.calls_in(f):
                names = {t.func.qualname for t in ts if t.kind == 'func'}
                if names & {'Model.canonicalize', 'Model.canonicalize_role', 'Model._canonicalize_inversion'}:
                    rep.violation(f'{f.module.name}:{f.qualname}: {norm(call)[:70]}', f.loc(call),
                                  'the layout canonicalises a role while writing or reading a tree: a model normalisation (AMR rewrites :mod-of to '
                                  ':domain) turns the inverted role into a role that is not inverted, so the text denotes a different triple')
    return rep


# ---------------------------------------------------------------------------------------------
def _exactly_once_per_iteration(cfg: CFG, head: int, nodes: Set[int], start_edges) -> Tuple[bool, bool]:
    """(can skip, can repeat) for the given node set within one pass from start_edges back to head."""
    skip = cfg.path_avoiding(start_edges, {head, cfg.exit}, lambda nd: nd.id in nodes) is not None
    rep_ = False
    for n in nodes:
        if cfg.path_avoiding([(n, None)], nodes, lambda nd: nd.id == head) is not None:
            rep_ = True
    return skip, rep_


@rule('R36', 'Push and POP are produced and consumed in matched pairs')
def r36(ctx: Ctx) -> RuleReport:
    rep = RuleReport('R36', r36.title, floor=8)
    repo = ctx.repo
    # (a) writer: _interpret_node, nested-node arm
    fi = repo.func(L, '_interpret_node')
    cfg = CFG(fi.node)
    IN = cond_facts(cfg)
    pm = repo.parent_map(fi.node)
    loop = next((n for n in walk_local(fi.node) if isinstance(n, ast.For)), None)
    if loop is None:
        raise AnalysisError('_interpret_node: no loop over branches')
    tgt = norm(loop.target.elts[1]) if isinstance(loop.target, ast.Tuple) else None
    pushes, pops, recs = [], [], []
    for n in ast.walk(loop):
        if isinstance(n, ast.Call) and isinstance(n.func, ast.Attribute) and n.func.attr == 'append' and n.args:
            a = n.args[0]
            if isinstance(a, ast.Call) and norm(a.func) == 'Push':
                pushes.append(n)
            elif norm(a) in ('POP', 'Pop()'):
                pops.append(n)
        if isinstance(n, ast.Call) and norm(n.func) == fi.name:
            recs.append(n)
    for label, lst in (('Push', pushes), ('POP', pops), ('recursive interpretation', recs)):
        if len(lst) != 1:
            rep.undecided(f'penman.layout:_interpret_node: one {label} per nested node', fi.loc(loop), f'{len(lst)} sites')
            continue
        n = lst[0]
        facts = facts_at(cfg, IN, pm, n)
        nested = (f'is_atomic({tgt})', False) in facts
        nid = owner_node(cfg, pm, n)
        # within the nested arm: from the false edge of is_atomic to the loop head, the site is passed exactly once
        condn = next((nd.id for nd in cfg.nodes if nd.kind == 'cond' and norm(nd.ast) == f'is_atomic({tgt})'), None)
        if condn is None:
            raise AnalysisError('_interpret_node: no is_atomic(target) test')
        head = cfg.node_of(loop)
        skip, again = _exactly_once_per_iteration(cfg, head, {nid}, [(condn, 'F')])
        good = nested and not skip and not again
        rep.add(f'penman.layout:_interpret_node: exactly one {label} on every path through the nested-node arm', fi.loc(n),
                'ok' if good else 'undecided',
                '' if good else ('not in the nested arm; ' if not nested else '') + ('can be skipped; ' if skip else '') + ('can repeat' if again else ''))
    if len(pushes) == 1:
        from ..resolve import expand
        pa = pushes[0].args[0].args[0] if pushes[0].args[0].args else None
        pax = norm(expand(ctx, fi, pa, pushes[0])) if pa is not None else None
        loopvar = norm(loop.target.elts[0]) if isinstance(loop.target, ast.Tuple) else None
        key = 'penman.layout:_interpret_node: Push names the variable of the nested node'
        if pax == f'{tgt}[0]':
            rep.ok(key, fi.loc(pushes[0]), norm(pushes[0]))
        elif pax in ('var', f'{fi.positional[0]}[0]') or (pax is not None and pax == loopvar):
            rep.violation(key, fi.loc(pushes[0]), f'Push({pax}) names the enclosing node (or the role), not the nested node {tgt}[0]')
        else:
            rep.undecided(key, fi.loc(pushes[0]), norm(pushes[0]))
    # (b) reader: _preconfigure queues one POP per Pop marker, after the triple
    pc = repo.func(L, '_preconfigure')
    cfg2 = CFG(pc.node)
    IN2 = cond_facts(cfg2)
    pm2 = repo.parent_map(pc.node)
    inner = [n for n in walk_local(pc.node) if isinstance(n, ast.For) and 'epidata' in norm(single_def(ctx, pc, n.iter) if isinstance(n.iter, ast.Name) else n.iter)]
    good = False
    bad = None
    detail = 'no list collecting one entry per Pop marker that is then extended into the data'
    if len(inner) == 1:
        ev = inner[0].target.id if isinstance(inner[0].target, ast.Name) else None
        for n in ast.walk(inner[0]):
            if isinstance(n, ast.Call) and isinstance(n.func, ast.Attribute) and n.func.attr == 'append' and isinstance(n.func.value, ast.Name):
                facts = facts_at(cfg2, IN2, pm2, n)
                if (f'isinstance({ev}, Pop)', True) in facts:
                    lst = n.func.value.id
                    ext = [m for m in walk_local(pc.node) if _recv_call(m, 'extend') and m.args and norm(m.args[0]) == lst]
                    app = [m for m in walk_local(pc.node) if _recv_call(m, 'append') and m.args and isinstance(m.args[0], ast.Tuple)
                           and len(m.args[0].elts) == 3]
                    if ext and app and _recv_call(ext[0], 'extend') == _recv_call(app[0], 'append'):
                        an, en = owner_node(cfg2, pm2, app[0]), owner_node(cfg2, pm2, ext[0])
                        good = en in cfg2.reachable_from([an])
                        detail = ''
                    # a generator:  yield (triple, push, epis)  followed by  yield from pops
                    ys_ = [m for m in walk_local(pc.node) if isinstance(m, ast.Yield) and isinstance(m.value, ast.Tuple) and len(m.value.elts) == 3]
                    yf_ = [m for m in walk_local(pc.node) if isinstance(m, ast.YieldFrom) and norm(m.value) == lst]
                    if ys_ and yf_ and not ext:
                        an, en = owner_node(cfg2, pm2, ys_[0]), owner_node(cfg2, pm2, yf_[0])
                        good = en in cfg2.reachable_from([an])
                        detail = ''
                    # data += [(triple, push, epis), *pops]
                    for m in walk_local(pc.node):
                        if isinstance(m, ast.AugAssign) and isinstance(m.op, ast.Add) and isinstance(m.value, ast.List) and len(m.value.elts) == 2 \
                                and isinstance(m.value.elts[0], ast.Tuple) and len(m.value.elts[0].elts) == 3 \
                                and isinstance(m.value.elts[1], ast.Starred) and norm(m.value.elts[1].value) == lst and not ext:
                            good = True
                            detail = ''
            # a Pop marker that only sets a flag: several markers on one triple collapse into one
            if isinstance(n, ast.Assign) and isinstance(n.targets[0], ast.Name) and isinstance(n.value, ast.Constant) and n.value.value is True:
                if (f'isinstance({ev}, Pop)', True) in facts_at(cfg2, IN2, pm2, n):
                    bad = (n, f'a Pop marker only sets the flag `{n.targets[0].id}`: a triple that closes several nested nodes (") )") queues a '
                              f'single POP, so the following branches are attached one level too deep')
        if good:
            bad = None          # the markers are collected as well; the flag serves something else
        brk = [n for n in ast.walk(inner[0]) if isinstance(n, ast.Break)]
        if brk:
            bad = (brk[0], 'the marker loop can stop early (break): later POPs of the same triple are lost')
    if len(inner) == 1:
        outer = next((a for a in _ancestors(pm2, inner[0]) if isinstance(a, ast.For)), None)
        if outer is not None:
            oh, ih = cfg2.node_of(outer), cfg2.node_of(inner[0])
            path = cfg2.path_avoiding([(oh, 'T')], {oh, cfg2.exit, cfg2.rexit}, lambda nd: nd.id == ih)
            rep.add('penman.layout:_preconfigure: the markers of every triple are read', pc.loc(outer), 'violation' if path else 'ok',
                    'a triple can be skipped before its markers are read (' + ' -> '.join(repr(cfg2.nodes[x]) for x in path)[:160] +
                    '): the POPs it carries are never queued, so the node it closes stays open' if path else '')
    if len(inner) == 1:
        outer2 = next((a for a in _ancestors(pm2, inner[0]) if isinstance(a, ast.For)), None)
        queued = {owner_node(cfg2, pm2, m) for m in walk_local(pc.node) if _recv_call(m, 'append') and m.args and isinstance(m.args[0], ast.Tuple)
                  and len(m.args[0].elts) == 3}
        queued |= {owner_node(cfg2, pm2, m) for m in walk_local(pc.node) if isinstance(m, ast.Yield) and isinstance(m.value, ast.Tuple) and len(m.value.elts) == 3}
        queued |= {cfg2.node_of(m) for m in walk_local(pc.node) if isinstance(m, ast.AugAssign) and isinstance(m.op, ast.Add) and isinstance(m.value, ast.List)
                   and m.value.elts and isinstance(m.value.elts[0], ast.Tuple) and len(m.value.elts[0].elts) == 3}
        if outer2 is not None and queued:
            oh2 = cfg2.node_of(outer2)
            p2 = cfg2.path_avoiding([(oh2, 'T')], {oh2, cfg2.exit, cfg2.rexit}, lambda nd: nd.id in queued)
            rep.add('penman.layout:_preconfigure: every triple of the graph is handed to the configuration', pc.loc(outer2), 'violation' if p2 else 'ok',
                    'a triple can be left out of the data (' + ' -> '.join(repr(cfg2.nodes[x]) for x in p2[-3:])[:160] + '): without markers, the instance triple of a '
                    'node that has no concept is the only thing that gives the node a site, so the variable is written as a constant and its node is lost'
                    if p2 else '')
    # closed world of the "already pushed" set: only the variable of a Push marker that is being honoured may enter it
    if len(inner) == 1 and ev:
        guard_sets = set()
        for nd in cfg2.nodes:
            if nd.kind == 'cond' and isinstance(nd.ast, ast.Compare) and len(nd.ast.ops) == 1 and isinstance(nd.ast.ops[0], (ast.In, ast.NotIn)) \
                    and isinstance(nd.ast.comparators[0], ast.Name) and any(x is nd.ast for x in ast.walk(inner[0])):
                lhs = norm(expand(ctx, pc, nd.ast.left, nd.ast))
                if lhs == f'{ev}.variable':
                    guard_sets.add(nd.ast.comparators[0].id)
        for S in sorted(guard_sets):
            feeds = [n for n in walk_local(pc.node) if isinstance(n, ast.Call) and isinstance(n.func, ast.Attribute) and norm(n.func.value) == S
                     and n.func.attr in ('add', 'update', 'append', 'extend') and n.args]
            feeds += [n for n in walk_local(pc.node) if isinstance(n, ast.AugAssign) and norm(n.target) == S]
            for f in feeds:
                k2 = f'penman.layout:_preconfigure: only the variable of a honoured Push enters `{S}` ({norm(f)[:40]})'
                arg = f.args[0] if isinstance(f, ast.Call) else f.value
                is_push_var = norm(expand(ctx, pc, arg, f)) == f'{ev}.variable' and isinstance(f, ast.Call) and f.func.attr in ('add', 'append')
                under_push = any(x is f for x in ast.walk(inner[0])) and (f'isinstance({ev}, Push)', True) in facts_at(cfg2, IN2, pm2, f)
                if is_push_var and under_push:
                    rep.ok(k2, pc.loc(f))
                else:
                    rep.violation(k2, pc.loc(f), f'`{norm(arg)[:40]}` is put into `{S}` ' + ('outside the handling of a Push marker' if not under_push else
                                  'although it is not the variable of the marker') + f': `{S}` decides that a later Push is a "secondary node context" and drops it, '
                                  f'so a node whose variable was merely mentioned before (e.g. as the source of a de-inverted triple) loses the place where the text '
                                  f'wrote it and is re-opened at its first mention')
    key = 'penman.layout:_preconfigure: one POP is queued for every Pop marker of a triple, after the triple'
    if bad is not None:
        rep.violation(key, pc.loc(bad[0]), bad[1])
    else:
        rep.add(key, pc.loc(), 'ok' if good else 'undecided', detail)
    # (c) reader: _configure_node - a Pop datum closes exactly one level; a honoured Push opens exactly one
    cn = repo.func(L, '_configure_node')
    cfg3 = CFG(cn.node)
    IN3 = cond_facts(cfg3)
    pm3 = repo.parent_map(cn.node)
    brk_ok = False
    for n in walk_local(cn.node):
        if isinstance(n, ast.If) and norm(n.test).startswith('isinstance(') and norm(n.test).endswith(', Pop)') \
                and len(n.body) == 1 and isinstance(n.body[0], ast.Break):
            brk_ok = True
    extra_pop = None
    for n in walk_local(cn.node):
        if isinstance(n, ast.If) and norm(n.test).startswith('isinstance(') and norm(n.test).endswith(', Pop)') and any(isinstance(b, ast.Break) for b in ast.walk(n)):
            dname = cn.positional[1] if len(cn.positional) > 1 else 'data'
            for x in n.body:
                for c in ast.walk(x):
                    if isinstance(c, ast.Call) and isinstance(c.func, ast.Attribute) and c.func.attr == 'pop' and norm(c.func.value) == dname:
                        extra_pop = c
                    if isinstance(c, ast.Delete) and any(norm(t).startswith(dname) for t in c.targets):
                        extra_pop = c
    if extra_pop is not None:
        rep.violation('penman.layout:_configure_node: a Pop datum ends the current node (break)', cn.loc(extra_pop),
                      f'on a Pop datum the node also consumes further data (`{norm(extra_pop)}`): a run of n POPs - a triple that closes n nested nodes at once - then closes ONE '
                      f'node; the enclosing nodes stay open and later branches are attached too deep ("(a :ARG0 (b :ARG1 (c)) :ARG2 b)" re-encodes with :ARG2 inside b)')
    else:
        rep.add('penman.layout:_configure_node: a Pop datum ends the current node (break)', cn.loc(), 'ok' if brk_ok else 'undecided')
    # ... and nothing else does, except a datum that could not be placed and was put back
    for n in walk_local(cn.node):
        if not isinstance(n, (ast.Break, ast.Return)) or (isinstance(n, ast.Return) and cfg3.node_of(n) == cfg3.exit):
            continue
        if isinstance(n, ast.Return):
            continue
        fx3 = facts_at(cfg3, IN3, pm3, n)
        under_pop = any(pol and f.startswith('isinstance(') and f.endswith(', Pop)') for f, pol in fx3)
        blk = pm3.get(id(n))
        sibs = []
        for fld in ('body', 'orelse'):
            if n in getattr(blk, fld, []):
                sibs = getattr(blk, fld)
        put_back = any(isinstance(x, ast.Expr) and isinstance(x.value, ast.Call) and isinstance(x.value.func, ast.Attribute) and x.value.func.attr in ('append', 'extend')
                       and norm(x.value.func.value) == cn.positional[1] for x in sibs[:sibs.index(n)]) if sibs else False
        n_brk = 1 + sum(1 for x in walk_local(cn.node) if isinstance(x, ast.Break) and (x.lineno, x.col_offset) < (n.lineno, n.col_offset))
        key = f'penman.layout:_configure_node: break #{n_brk} ends the node only at a Pop or for a datum it puts back'
        if under_pop or put_back:
            rep.ok(key, cn.loc(n), 'Pop datum' if under_pop else 'datum put back')
        else:
            conds = sorted(f if pol else f'not ({f})' for f, pol in fx3)[:4]
            rep.violation(key, cn.loc(n), f'under {conds} the loop is left although the datum is neither a Pop nor put back on the data: the node is closed early, the rest of its '
                          f'triples (up to its real Pop) are configured into the enclosing node and the Pop then closes that one')
    recs = [c for c, ts in ctx.cg.calls_in(cn) if any(t.kind == 'func' and t.func.fq == cn.fq for t in ts)]
    good = len(recs) == 1 and ('push', True) in facts_at(cfg3, IN3, pm3, recs[0])
    rep.add('penman.layout:_configure_node: a honoured Push opens exactly one nested node', cn.loc(), 'ok' if good else 'undecided',
            '' if good else f'{len(recs)} recursive calls')
    # (d) diagnostics: node_contexts pushes per Push and pops once per Pop marker
    nc = repo.func(L, 'node_contexts')
    cfg4 = CFG(nc.node)
    IN4 = cond_facts(cfg4)
    pm4 = repo.parent_map(nc.node)
    spops = [n for n in walk_local(nc.node) if _recv_call(n, 'pop') == 'stack' and not n.args]
    key = 'penman.layout:node_contexts: the context stack is popped once per Pop marker'
    if not spops:
        # equivalent form: count the Pop markers of the triple, then cut that many contexts off the stack
        counted = None
        for n in walk_local(nc.node):
            if isinstance(n, ast.AugAssign) and isinstance(n.op, ast.Add) and isinstance(n.target, ast.Name) and try_fold(n.value) == (True, 1):
                lp = next((a for a in _ancestors(pm4, n) if isinstance(a, ast.For)), None)
                if lp is not None and isinstance(lp.target, ast.Name) and 'epidata' in norm(lp.iter) \
                        and (f'isinstance({lp.target.id}, Pop)', True) in facts_at(cfg4, IN4, pm4, n) \
                        and not [x for x in ast.walk(lp) if isinstance(x, (ast.Break, ast.Return))]:
                    counted = n.target.id
        cut = [n for n in walk_local(nc.node) if isinstance(n, ast.Delete) and counted and any(
            isinstance(t, ast.Subscript) and norm(t.value) == 'stack' and counted in norm(t.slice) for t in n.targets)]
        if counted and cut:
            rep.ok(key, nc.loc(cut[0]), f'{counted} counts the Pop markers of the triple and `{norm(cut[0])}` removes that many contexts')
        else:
            rep.undecided(key, nc.loc(), 'no stack.pop()')
    for sp in spops:
        lp = None
        for a in _ancestors(pm4, sp):
            if isinstance(a, ast.For):
                lp = a
                break
        facts = facts_at(cfg4, IN4, pm4, sp)
        over_markers = lp is not None and isinstance(lp.target, ast.Name) and 'epidata' in norm(lp.iter)
        if over_markers and (f'isinstance({lp.target.id}, Pop)', True) in facts:
            early = [x for x in ast.walk(lp) if isinstance(x, (ast.Break, ast.Return))]
            rep.add(key, nc.loc(sp), 'violation' if early else 'ok',
                    'the marker loop leaves early (break/return): a triple closing several nodes pops the context stack only once, '
                    'so every later triple is attributed to a node that is already closed' if early else '')
        elif any(pol and f.startswith('any(') and 'isinstance(' in f and 'Pop' in f for f, pol in facts):
            rep.violation(key, nc.loc(sp), 'stack.pop() runs at most once per triple (guarded by any(...Pop...)): a triple closing several '
                          'nodes pops the context stack only once, so every later triple is attributed to a node that is already closed')
        else:
            rep.undecided(key, nc.loc(sp), 'stack.pop() is not inside a loop over all markers of the triple under isinstance(marker, Pop)')
    # get_pushed_variable looks at every marker of the triple
    gp_ = repo.func(L, 'get_pushed_variable')
    tests = [n for n in walk_local(gp_.node) if isinstance(n, ast.Call) and isinstance(n.func, ast.Name) and n.func.id == 'isinstance'
             and len(n.args) == 2 and norm(n.args[1]) == 'Push']
    key = 'penman.layout:get_pushed_variable: every marker of the triple is inspected for a Push'
    if not tests:
        rep.undecided(key, gp_.loc(), 'no isinstance(<marker>, Push) test')
    for t in tests:
        a = t.args[0]
        if isinstance(a, ast.Subscript) and isinstance(a.slice, ast.Constant) and isinstance(a.slice.value, int):
            rep.violation(key, gp_.loc(t), f'only `{norm(a)}` is tested: interpretation records the alignment of the role before the Push marker, so an '
                          f'aligned role that opens a nested node (":ARG0~e.1 (b / beta)") is reported as pushing nothing and every later node context is lost')
        elif isinstance(a, ast.Name):
            scans = any((isinstance(n, ast.For) and norm(n.target) == a.id and '.epidata' in norm(n.iter)) or
                        (isinstance(n, ast.comprehension) and norm(n.target) == a.id and '.epidata' in norm(n.iter))
                        for n in ast.walk(gp_.node))
            rep.add(key, gp_.loc(t), 'ok' if scans else 'undecided', norm(t))
        else:
            rep.undecided(key, gp_.loc(t), norm(t))
    # _configure_node: the expected orientation has priority over the unexpected inversion
    from ..resolve import facts_ex
    cvar = cn.positional[0]
    for c, ts in ctx.cg.calls_in(cn):
        if any(tt.kind == 'func' and tt.func.qualname == 'Model.invert' for tt in ts):
            fx = facts_ex(ctx, cn, c)
            arg = norm(c.args[0]) if c.args else 'triple'
            src_names = {f'{arg}[0]'} | {norm(n.targets[0].elts[0]) for n in walk_local(cn.node) if isinstance(n, ast.Assign)
                                         and isinstance(n.targets[0], ast.Tuple) and len(n.targets[0].elts) == 3 and norm(n.value) == arg}
            differs = any(((f in (f'{s0} == {cvar}', f'{cvar} == {s0}') and not pol) or (f in (f'{s0} != {cvar}', f'{cvar} != {s0}') and pol))
                          for f, pol in fx for s0 in src_names)
            key = 'penman.layout:_configure_node: a triple is re-inverted only if its source is not the current node'
            rep.add(key, cn.loc(c), 'ok' if differs else 'violation',
                    '' if differs else f'`{norm(c)}` can run although the source of the triple is the current node (facts here: {sorted(fx)}): a self-loop '
                                       f'such as (a :ARG0 a) is written back as (a :ARG0-of a)')
    spush = [n for n in walk_local(nc.node) if _recv_call(n, 'append') == 'stack']
    good = len(spush) == 1 and isinstance(spush[0].args[0], ast.Name) and \
        (spush[0].args[0].id, True) in facts_at(cfg4, IN4, pm4, spush[0])
    if good:
        d = single_def(ctx, nc, spush[0].args[0])
        good = isinstance(d, ast.Call) and norm(d.func) == 'get_pushed_variable'
    if not good and len(spush) == 1:
        # equivalent form: the Push markers of the triple are collected in the marker loop and the first one is used
        a = spush[0].args[0]
        if isinstance(a, ast.Attribute) and a.attr == 'variable' and isinstance(a.value, ast.Subscript) and try_fold(a.value.slice) == (True, 0) \
                and isinstance(a.value.value, ast.Name):
            lst = a.value.value.id
            for n in walk_local(nc.node):
                if _recv_call(n, 'append') == lst and n.args and isinstance(n.args[0], ast.Name):
                    lp = next((x for x in _ancestors(pm4, n) if isinstance(x, ast.For)), None)
                    if lp is not None and isinstance(lp.target, ast.Name) and lp.target.id == n.args[0].id and 'epidata' in norm(lp.iter) \
                            and (f'isinstance({lp.target.id}, Push)', True) in facts_at(cfg4, IN4, pm4, n) \
                            and (norm(a), True) in facts_at(cfg4, IN4, pm4, spush[0]):
                        good = True
    rep.add('penman.layout:node_contexts: the pushed variable of a triple opens a context', nc.loc(), 'ok' if good else 'undecided')
    # order inside one iteration: context recorded, then push, then pops
    return rep


# ---------------------------------------------------------------------------------------------
def _sym(ctx: Ctx, fi: FuncInfo, e: ast.AST, env: Dict[str, tuple], b: str):
    """Abstract value of e: ('slice', lo, hi) of branches b | ('concat', x, y) | ('sorted', x) | ('empty',) | ('other', src)"""
    if isinstance(e, ast.Name):
        if e.id in env:
            return env[e.id]
        return ('other', e.id)
    if isinstance(e, ast.List) and not e.elts:
        return ('empty',)
    if isinstance(e, ast.Subscript) and isinstance(e.value, ast.Name) and e.value.id == b and isinstance(e.slice, ast.Slice) \
            and e.slice.step is None:
        lo = try_fold(e.slice.lower)[1] if e.slice.lower is not None else 0
        hi = try_fold(e.slice.upper)[1] if e.slice.upper is not None else None
        return ('slice', lo, hi)
    if isinstance(e, ast.BinOp) and isinstance(e.op, ast.Add):
        x, y = _sym(ctx, fi, e.left, env, b), _sym(ctx, fi, e.right, env, b)
        if x == ('empty',):
            return y
        if y == ('empty',):
            return x
        if x[0] == 'slice' and y[0] == 'slice' and x[2] is not None and x[2] == y[1]:
            return ('slice', x[1], y[2])        # adjacent pieces of the branch list
        return ('concat', x, y)
    if isinstance(e, ast.Call) and isinstance(e.func, ast.Name) and e.func.id == 'sorted' and e.args:
        rev = next((k.value for k in e.keywords if k.arg == 'reverse'), None)
        if rev is not None and try_fold(rev) != (True, False):
            return ('other', norm(e))
        return ('sorted', _sym(ctx, fi, e.args[0], env, b))
    if isinstance(e, ast.Call) and isinstance(e.func, ast.Name) and e.func.id == 'list' and len(e.args) == 1:
        return _sym(ctx, fi, e.args[0], env, b)
    return ('other', norm(e))


def _r26_pivot_form(ctx: Ctx, rep: RuleReport, fi: FuncInfo, b: str) -> bool:
    """`pivot = 1 if <leading concept> else 0; b[pivot:] = sorted(b[pivot:], key=key)` with a recursion loop over a slice of b."""
    from ..resolve import expand
    st = [n for n in walk_local(fi.node) if isinstance(n, ast.Assign) and isinstance(n.targets[0], ast.Subscript) and norm(n.targets[0].value) == b
          and isinstance(n.targets[0].slice, ast.Slice) and n.targets[0].slice.lower is not None and n.targets[0].slice.upper is None]
    if len(st) != 1:
        return False
    store = st[0]
    low = store.targets[0].slice.lower
    v = store.value
    tail_name = None
    if isinstance(v, ast.Name):
        # rest = b[pivot:]; rest.sort(key=key); b[pivot:] = rest
        d = single_def(ctx, fi, v)
        sorts = [c for c in walk_local(fi.node) if isinstance(c, ast.Call) and isinstance(c.func, ast.Attribute) and c.func.attr == 'sort' and norm(c.func.value) == v.id]
        others = [c for c in walk_local(fi.node) if isinstance(c, ast.Call) and isinstance(c.func, ast.Attribute) and norm(c.func.value) == v.id
                  and c.func.attr in ('append', 'extend', 'insert', 'pop', 'remove', 'reverse', 'clear')]
        c_ = CFG(fi.node)
        pm_ = ctx.repo.parent_map(fi.node)
        unsorted_path = sorts and c_.path_avoiding([(c_.entry, None)], {c_.node_of(store)}, lambda nd: nd.id == owner_node(c_, pm_, sorts[0]))
        if norm(d) == f'{b}[{norm(low)}:]' and len(sorts) == 1 and not others and not sorts[0].args and not unsorted_path:
            tail_name = v.id
            v = ast.Call(func=ast.Name(id='sorted', ctx=ast.Load()), args=[d], keywords=sorts[0].keywords)
            ast.copy_location(v, sorts[0])
            ast.fix_missing_locations(v)
    if not (isinstance(v, ast.Call) and norm(v.func) == 'sorted' and v.args and norm(v.args[0]) == f'{b}[{norm(low)}:]'):
        return False
    pv = expand(ctx, fi, low, store)
    cases = []
    if isinstance(pv, ast.IfExp) and isinstance(pv.body, ast.Constant) and isinstance(pv.orelse, ast.Constant):
        cases = [(norm(pv.test), True, pv.body.value), (norm(pv.test), False, pv.orelse.value)]
    elif isinstance(pv, ast.Constant):
        cases = [('True', True, pv.value)]
    else:
        return False
    for test, pol, k in cases:
        key = f'penman.layout:_rearrange: stored value when `{test}` is {pol}'
        concept = pol and "[0][0] == '/'" in test
        if (k == 1 and concept) or (k == 0 and not concept):
            rep.ok(key, fi.loc(store), f'b[{k}:] = sorted(b[{k}:])')
        elif k == 0 and concept:
            rep.violation(key, fi.loc(store), 'a leading concept branch takes part in the sort: it can lose its first position')
        else:
            rep.violation(key, fi.loc(store), f'the first {k} branch(es) are kept in place although the test `{test}` does not establish a leading concept branch')
    keyp = fi.positional[1] if len(fi.positional) > 1 else 'key'
    good = any(k.arg == 'key' and norm(k.value) == keyp for k in v.keywords) and not any(k.arg == 'reverse' for k in v.keywords)
    rep.add('penman.layout:_rearrange: sorted(..., key=<the key argument>) (stable, ascending)', fi.loc(store), 'ok' if good else 'undecided')
    # recursion: the loop must reach every branch that can be a nested node
    found = False
    for lp in [n for n in walk_local(fi.node) if isinstance(n, ast.For)]:
        it = lp.iter
        if isinstance(it, ast.Name) and it.id == tail_name:
            it = single_def(ctx, fi, it)
        start = None
        if norm(it) == b:
            start = 0
        elif isinstance(it, ast.Subscript) and norm(it.value) == b and isinstance(it.slice, ast.Slice) and it.slice.upper is None:
            lo = expand(ctx, fi, it.slice.lower, lp) if it.slice.lower is not None else ast.Constant(value=0)
            start = lo.value if isinstance(lo, ast.Constant) else ('pivot' if norm(lo) == norm(pv) else None)
        recs = [c for c in ast.walk(lp) if isinstance(c, ast.Call) and norm(c.func) == fi.name]
        if not recs or start is None:
            continue
        found = True
        key = 'penman.layout:_rearrange: recurses into every nested node with the same key'
        if start == 'pivot' or start == 0:
            rep.ok(key, fi.loc(lp), f'loop over {norm(it)}')
        else:
            skipped = [(t, pol, k) for t, pol, k in cases if isinstance(start, int) and start > k]
            if skipped:
                t, pol, k = skipped[0]
                rep.violation(key, fi.loc(lp), f'the recursion ranges over `{norm(it)}` although the sort starts at {k} when `{t}` is {pol}: the first branch of a node '
                              f'without a leading concept is never descended into, so the subtree under it keeps its old order')
            else:
                rep.ok(key, fi.loc(lp), f'loop over {norm(it)}')
    if not found:
        rep.undecided('penman.layout:_rearrange: recurses into every nested node with the same key', fi.loc())
    return True


@rule('R26', 'rearrange stores a permutation of the branches that keeps a leading concept branch first; reconfigure only sorts')
def r26(ctx: Ctx) -> RuleReport:
    rep = RuleReport('R26', r26.title, floor=5)
    fi = ctx.repo.func(L, '_rearrange')
    unp = None
    for n in walk_local(fi.node):
        if isinstance(n, ast.Assign) and isinstance(n.targets[0], ast.Tuple) and len(n.targets[0].elts) == 2 and norm(n.value) == fi.positional[0]:
            unp = norm(n.targets[0].elts[1])
    if unp is None:
        raise AnalysisError('_rearrange: no `_, branches = node`')
    b = unp
    stores = [n for n in walk_local(fi.node) if isinstance(n, ast.Assign) and norm(n.targets[0]) in (f'{b}[:]',)]
    if not stores and _r26_pivot_form(ctx, rep, fi, b):
        stores = None
    if stores is None:
        pass
    elif len(stores) != 1:
        rep.undecided('penman.layout:_rearrange: the branch list is replaced in place exactly once', fi.loc(),
                      f'{len(stores)} stores to {b}[:]')
        return rep
    if stores is not None:
        store = stores[0]
        # cases: arms of the if that defines first/rest
        ifs = [n for n in fi.node.body if isinstance(n, ast.If)]
        cases: List[Tuple[str, Dict[str, tuple], bool]] = []
        if len(ifs) == 1:
            for arm, pol in ((ifs[0].body, True), (ifs[0].orelse, False)):
                env: Dict[str, tuple] = {}
                for st in arm:
                    if isinstance(st, ast.Assign) and isinstance(st.targets[0], ast.Name):
                        env[st.targets[0].id] = _sym(ctx, fi, st.value, env, b)
                cases.append((norm(ifs[0].test), env, pol))
        else:
            # first = [br for br in b[:1] if br[0] == '/']: the leading branch when it is the concept branch, nothing otherwise
            filt = None
            for st in fi.node.body:
                if isinstance(st, ast.Assign) and isinstance(st.targets[0], ast.Name) and isinstance(st.value, ast.ListComp) and len(st.value.generators) == 1:
                    g_ = st.value.generators[0]
                    if isinstance(g_.target, ast.Name) and norm(st.value.elt) == g_.target.id and len(g_.ifs) == 1 and norm(g_.iter) in (f'{b}[:1]', f'{b}[0:1]') \
                            and norm(g_.ifs[0]) in (f"{g_.target.id}[0] == '/'", f"'/' == {g_.target.id}[0]"):
                        filt = st
            for pol_ in ((True, False) if filt is not None else (None,)):
                env = {}
                for st in fi.node.body:
                    if isinstance(st, ast.Assign) and isinstance(st.targets[0], ast.Name):
                        if st is filt:
                            env[st.targets[0].id] = ('slice', 0, 1) if pol_ else ('empty',)
                        else:
                            env[st.targets[0].id] = _sym(ctx, fi, st.value, env, b)
                cases.append(('True', env, True) if filt is None else (f"{b} and {b}[0][0] == '/'", env, pol_))
        for test, env, pol in cases:
            v = _sym(ctx, fi, store.value, env, b)
            key = f'penman.layout:_rearrange: stored value when `{test}` is {pol}'
            good, k = False, None
            if v[0] == 'sorted' and v[1] == ('empty',):
                v = ('concat', ('empty',), v)
            if v[0] == 'concat' and v[2][0] == 'sorted':
                A, B = v[1], v[2][1]
                if A == ('empty',) and B in (('slice', 0, None),):
                    good, k = True, 0
                elif A[0] == 'slice' and B[0] == 'slice' and A[1] == 0 and A[2] == B[1] and B[2] is None:
                    good, k = True, A[2]
            elif v[0] == 'sorted' and v[1] == ('slice', 0, None):
                good, k = True, 0
            msg = f'{v}'
            if v[0] == 'concat' and v[1] == ('empty',) and v[2][0] == 'sorted' and v[2][1][0] == 'slice' and isinstance(v[2][1][1], int) and v[2][1][1] > 0 and v[2][1][2] is None:
                msg = (f'only the branches from position {v[2][1][1]} on are stored (sorted): the first {v[2][1][1]} branch(es) of a node without a leading concept branch are '
                       f'neither kept nor sorted - they are dropped from the tree together with everything below them, so an ordering option removes triples')
            if v[0] == 'sorted' and v[1][0] == 'slice' and isinstance(v[1][1], int) and v[1][1] > 0 and v[1][2] is None:
                msg = (f'only the branches from position {v[1][1]} on are stored (sorted): the first {v[1][1]} branch(es) of a node without a leading concept branch are dropped')
            if good and k:
                # keeping k leading branches unsorted is only right when they are the concept branch
                concept = pol and "[0][0] == '/'" in test and k == 1
                if not concept:
                    good = False
                    msg = f'the first {k} branch(es) are kept in place although the test `{test}` does not establish a leading concept branch'
            if good and k == 0 and pol and "[0][0] == '/'" in test:
                good = False
                msg = 'a leading concept branch takes part in the sort: it can lose its first position'
            positive = not good and msg != f'{v}'          # a recognised shape with the wrong split point
            rep.add(key, fi.loc(store), 'ok' if good else ('violation' if positive else 'undecided'), msg if not good else f'concat(b[:{k}], sorted(b[{k}:]))')
        # the sort is the builtin stable sort with the caller's key and default direction
        srt = [n for n in ast.walk(store.value) if isinstance(n, ast.Call) and isinstance(n.func, ast.Name) and n.func.id == 'sorted']
        keyp = fi.positional[1] if len(fi.positional) > 1 else 'key'
        good = len(srt) == 1 and any(k.arg == 'key' and norm(k.value) == keyp for k in srt[0].keywords)
        rep.add('penman.layout:_rearrange: sorted(..., key=<the key argument>) (stable, ascending)', fi.loc(store), 'ok' if good else 'undecided')
        # recursion into every nested node
        loops = [n for n in walk_local(fi.node) if isinstance(n, ast.For)]
        rec_ok = False
        cfg = CFG(fi.node)
        IN = cond_facts(cfg)
        pm = ctx.repo.parent_map(fi.node)
        for lp in loops:
            src = single_def(ctx, fi, lp.iter)
            covers = norm(lp.iter) == b or (isinstance(lp.iter, ast.Name) and any(
                env.get(lp.iter.id, ('?',))[0] == 'slice' for _, env, _ in cases))
            for n in ast.walk(lp):
                if isinstance(n, ast.Call) and norm(n.func) == fi.name:
                    facts = facts_at(cfg, IN, pm, n)
                    tvar = norm(lp.target.elts[1]) if isinstance(lp.target, ast.Tuple) and len(lp.target.elts) == 2 else None
                    if covers and tvar and (f'is_atomic({tvar})', False) in facts and norm(n.args[0]) == tvar \
                            and not [x for x in ast.walk(lp) if isinstance(x, (ast.Break, ast.Continue, ast.Return))]:
                        rec_ok = True
        rep.add('penman.layout:_rearrange: recurses into every nested node with the same key', fi.loc(), 'ok' if rec_ok else 'undecided')
    # rearrange.sort_key
    sk = ctx.repo.maybe_func(L, 'rearrange.sort_key')
    if sk is None:
        # the key handed to _rearrange: a nested function, or functools.partial(<module-level function>, ...)
        ra = ctx.repo.func(L, 'rearrange')
        for c in walk_local(ra.node):
            if isinstance(c, ast.Call) and norm(c.func) == '_rearrange' and len(c.args) >= 2:
                kx = single_def(ctx, ra, c.args[1])
                if isinstance(kx, ast.Call) and norm(kx.func) in ('partial', 'functools.partial') and kx.args and isinstance(kx.args[0], ast.Name):
                    sk = ctx.repo.maybe_func(L, kx.args[0].id)
                elif isinstance(kx, ast.Name):
                    sk = ctx.repo.maybe_func(L, f'rearrange.{kx.id}') or ctx.repo.maybe_func(L, kx.id)
    if sk is None:
        rep.undecided('penman.layout:rearrange: the sort key handed to _rearrange', fi.loc(), 'not found')
        return rep
    rets = [n for n in walk_local(sk.node) if isinstance(n, ast.Return) and n.value is not None]
    good = len(rets) == 1 and isinstance(rets[0].value, ast.Tuple) and len(rets[0].value.elts) == 2
    if good:
        c2 = single_def(ctx, sk, rets[0].value.elts[1])
        good = isinstance(c2, ast.IfExp) and norm(c2.test) == 'key is None' and isinstance(c2.orelse, ast.Call) and norm(c2.orelse.func) == 'key' \
            and len(c2.orelse.args) == 1
        if good:
            rolevar = norm(c2.orelse.args[0])
            unp2 = next((n for n in walk_local(sk.node) if isinstance(n, ast.Assign) and isinstance(n.targets[0], ast.Tuple)
                         and norm(n.value) in sk.positional), None)
            good = unp2 is not None and norm(unp2.targets[0].elts[0]) == rolevar
    rep.add('penman.layout:rearrange.sort_key: key is (attributes-first criterion, key(role of the branch))', sk.loc(),
            'ok' if good else 'undecided')
    # reconfigure: the only operation on the copied triples is a keyed stable sort
    from ..resolve import local_callees
    rc = ctx.repo.func(L, 'reconfigure')
    rc_funcs = [f for f in local_callees(ctx, rc, depth=1) if f.qualname != 'configure']
    muts = []
    for f in rc_funcs:
        for n in walk_local(f.node):
            if isinstance(n, ast.Call) and isinstance(n.func, ast.Attribute) and norm(n.func.value).endswith('.triples'):
                muts.append((f, n))
            if isinstance(n, (ast.Assign, ast.AugAssign, ast.Delete)):
                tg = n.targets if isinstance(n, (ast.Assign, ast.Delete)) else [n.target]
                for t in tg:
                    if '.triples' in norm(t):
                        muts.append((f, n))
    key = 'penman.layout:reconfigure: triples are only reordered by list.sort(key=...) (stable)'
    if not muts:
        rep.undecided(key, rc.loc(), 'no operation on the triples of the copy found')
    for f, m in muts:
        if isinstance(m, ast.Call) and m.func.attr == 'sort':
            rev = [k for k in m.keywords if k.arg == 'reverse' and try_fold(k.value) != (True, False)]
            rep.add(key, f.loc(m), 'violation' if rev else 'ok', f'{norm(m)[:60]} sorts in reverse: ties no longer keep their original order' if rev else '')
            kw = next((k.value for k in m.keywords if k.arg == 'key'), None)
            kf = None
            if isinstance(kw, ast.Name):
                kf = ctx.repo.maybe_func(L, f'{f.qualname}.{kw.id}')
            if kf is not None:
                r = [n for n in walk_local(kf.node) if isinstance(n, ast.Return)]
                good = len(r) == 1 and norm(r[0].value) == f'key({kf.positional[0]}[1])'
                rep.add(f'penman.layout:{kf.qualname}: triples are ordered by key(role)', kf.loc(), 'ok' if good else 'undecided')
            elif isinstance(kw, ast.Lambda):
                good = norm(kw.body) == f'key({kw.args.args[0].arg}[1])'
                if not good and isinstance(kw.body, ast.Call) and isinstance(kw.body.func, ast.Name) and len(kw.body.args) == 1 \
                        and norm(kw.body.args[0]) == f'{kw.args.args[0].arg}[1]':
                    alias = single_def(ctx, f, kw.body.func)        # role_key = key
                    good = isinstance(alias, ast.Name) and alias.id == 'key'
                rep.add('penman.layout:reconfigure: triples are ordered by key(role)', f.loc(m), 'ok' if good else 'undecided')
        elif isinstance(m, ast.Call) and m.func.attr in ('reverse', 'pop', 'remove', 'clear', 'insert', 'append', 'extend'):
            rep.violation(key, f.loc(m), f'{norm(m)[:60]} changes the triple list other than by a stable sort')
        else:
            rep.undecided(key, f.loc(m), norm(m)[:60])
    return rep


@rule('R27', 'reconfigure strips exactly the layout markers (Push/Pop), never alignments')
def r27(ctx: Ctx) -> RuleReport:
    rep = RuleReport('R27', r27.title, floor=3)
    rc = ctx.repo.func(L, 'reconfigure')
    push, pop = ctx.repo.cls(L, 'Push'), ctx.repo.cls(L, 'Pop')
    epi = ctx.repo.cls('penman.epigraph', 'Epidatum')
    others = [c for c in ctx.repo.subclasses(epi) if not c.is_subclass_of(ctx.repo.cls(L, 'LayoutMarker'))] \
        if 'LayoutMarker' in ctx.repo.module(L).classes else []
    from ..resolve import local_callees
    rc_funcs = [f for f in local_callees(ctx, rc, depth=1) if f.qualname != 'configure']
    comps = [(f, n) for f in rc_funcs for n in walk_local(f.node) if isinstance(n, ast.ListComp)]
    # filterfalse(<predicate>, xs) with a predicate `return isinstance(x, C)` is the comprehension [e for e in xs if not isinstance(e, C)]
    for f in rc_funcs:
        for n in walk_local(f.node):
            if isinstance(n, ast.Call) and norm(n.func) in ('filterfalse', 'itertools.filterfalse') and len(n.args) == 2 and isinstance(n.args[0], ast.Name):
                pf = ctx.repo.maybe_func(f.module.name, n.args[0].id)
                if pf is None or not pf.positional:
                    continue
                body_ = [x for x in pf.node.body if not (isinstance(x, ast.Expr) and isinstance(x.value, ast.Constant))]
                if len(body_) == 1 and isinstance(body_[0], ast.Return) and isinstance(body_[0].value, ast.Call) and norm(body_[0].value.func) == 'isinstance' \
                        and len(body_[0].value.args) == 2 and norm(body_[0].value.args[0]) == pf.positional[0]:
                    e_ = ast.Name(id='_e', ctx=ast.Load())
                    test_ = ast.UnaryOp(op=ast.Not(), operand=ast.Call(func=ast.Name(id='isinstance', ctx=ast.Load()), args=[e_, body_[0].value.args[1]], keywords=[]))
                    synth = ast.ListComp(elt=ast.Name(id='_e', ctx=ast.Load()),
                                         generators=[ast.comprehension(target=ast.Name(id='_e', ctx=ast.Store()), iter=n.args[1], ifs=[test_], is_async=0)])
                    ast.copy_location(synth, n)
                    ast.fix_missing_locations(synth)
                    comps.append((f, synth))
    found = False
    for f, c in comps:
        for g in c.generators:
            for cond in g.ifs:
                inner = cond.operand if isinstance(cond, ast.UnaryOp) and isinstance(cond.op, ast.Not) else None
                if isinstance(inner, ast.Call) and norm(inner.func) == 'isinstance' and len(inner.args) == 2:
                    found = True
                    names = [inner.args[1]] + (list(inner.args[1].elts) if isinstance(inner.args[1], ast.Tuple) else [])
                    classes = []
                    for x in names:
                        if isinstance(x, ast.Name):
                            r = ctx.repo.resolve_name(f.module, x.id)
                            if r[0] == 'class':
                                classes.append(r[2])
                    covers_push = any(push.is_subclass_of(k) for k in classes)
                    covers_pop = any(pop.is_subclass_of(k) for k in classes)
                    hits_other = [o.name for o in ctx.repo.subclasses(epi) + [epi]
                                  if not (o.is_subclass_of(push) or o.is_subclass_of(pop) or o.name == 'LayoutMarker')
                                  and any(o.is_subclass_of(k) for k in classes)]
                    missing = [n for n, cv in (('Push', covers_push), ('Pop', covers_pop)) if not cv]
                    rep.add('penman.layout:reconfigure: Push and Pop markers are removed', f.loc(c),
                            'ok' if not missing else ('violation' if classes else 'undecided'),
                            '' if not missing else f'the filter removes {[k.name for k in classes]} only: {missing} markers of the old layout survive '
                                                   f'and steer the new configuration')
                    rep.add('penman.layout:reconfigure: no other marker class is removed', f.loc(c),
                            'ok' if not hits_other else 'violation',
                            '' if not hits_other else f'also removes {hits_other}: alignments would be lost')
                    elt_ok = isinstance(c.elt, ast.Name) and isinstance(g.target, ast.Name) and c.elt.id == g.target.id
                    rep.add('penman.layout:reconfigure: kept markers are kept as they are', f.loc(c), 'ok' if elt_ok else 'undecided')
    if not found:
        rep.undecided('penman.layout:reconfigure: layout markers are filtered by isinstance', rc.loc(), 'no `not isinstance(epi, <class>)` filter')
    loops = [n for f in rc_funcs for n in walk_local(f.node) if isinstance(n, ast.For) and norm(n.iter).endswith('.epidata.values()')]
    rep.add('penman.layout:reconfigure: every marker list of the copy is filtered', rc.loc(), 'ok' if loops else 'undecided')
    return rep


# ---------------------------------------------------------------------------------------------
@rule('R44', 'appears_inverted answers False outright only for instance/attribute triples, otherwise it consults the markers')
def r44(ctx: Ctx) -> RuleReport:
    rep = RuleReport('R44', r44.title, floor=3)
    fi = ctx.repo.func(L, 'appears_inverted')
    tp = fi.positional[1]
    cfg = CFG(fi.node)
    pm = ctx.repo.parent_map(fi.node)
    false_rets = [nd for nd in cfg.nodes if nd.kind == 'stmt' and isinstance(nd.ast, ast.Return)
                  and isinstance(nd.ast.value, ast.Constant) and nd.ast.value.value is False]
    for nd in cfg.nodes:
        if nd.kind == 'stmt' and isinstance(nd.ast, ast.Return) and (nd.ast.value is None or (isinstance(nd.ast.value, ast.Constant) and nd.ast.value.value is not False)):
            val = None if nd.ast.value is None else nd.ast.value.value
            rep.violation('penman.layout:appears_inverted: an answer that rests on no marker and no node context is False', fi.loc(nd.ast),
                          f'`{norm(nd.ast)}` answers {val!r} without comparing anything: for a triple whose context is unknown (a graph without markers, a triple that is not '
                          f'in the graph) the documented answer is False' + ('; a truthy constant makes reify_edges swap the two new triples of every such edge' if val else ''))
    ctx_loop = None
    for n in walk_local(fi.node):
        if isinstance(n, ast.For) and 'node_contexts(' in norm(n.iter):
            ctx_loop = n
    if ctx_loop is None:
        rep.undecided('penman.layout:appears_inverted: falls back to node_contexts when no Push is recorded', fi.loc(),
                      'no loop over node_contexts(g)')
        return rep
    rep.ok('penman.layout:appears_inverted: falls back to node_contexts when no Push is recorded', fi.loc(ctx_loop))
    loopn = cfg.node_of(ctx_loop)
    variables = None
    for nm, vals in ctx.cg.local_assigns(fi).items():
        if len(vals) == 1 and isinstance(vals[0], ast.Call) and norm(vals[0].func).endswith('.variables'):
            variables = nm
    accept = {(f'{tp}[1] == CONCEPT_ROLE', True), (f'{tp}[2] not in {variables}', True), (f'{tp}[2] in {variables}', False),
              (f'{tp}[1] != CONCEPT_ROLE', False),
              # infeasible edges: the source of a triple of g is always one of g.variables()
              (f'{tp}[0] not in {variables}', True), (f'{tp}[0] in {variables}', False)}
    for r in false_rets:
        # may a path reach this `return False` with neither test established and without passing the context loop?
        seen = set()
        stack = [cfg.entry]
        bad_path = False
        while stack:
            n = stack.pop()
            if n in seen:
                continue
            seen.add(n)
            if n == r.id:
                bad_path = True
                break
            if n == loopn:
                continue
            node = cfg.nodes[n]
            for m, lab in cfg.succ[n]:
                if node.kind == 'cond' and (norm(node.ast), lab == 'T') in accept:
                    continue
                stack.append(m)
        rep.add(f'penman.layout:appears_inverted: {norm(r.ast)} is reached only for instance/attribute triples or after the context scan',
                fi.loc(r.ast), 'violation' if bad_path else 'ok',
                'an edge can be answered "not inverted" without looking at the node contexts: an inverted re-entrancy written '
                'directly under the top (or under any node that was never pushed) is misreported' if bad_path else '')
    # the two comparisons are for relations only: an instance triple whose concept is spelled like a variable must not get there
    role_ok = {(f'{tp}[1] == CONCEPT_ROLE', False), (f'{tp}[1] != CONCEPT_ROLE', True)}
    for r in [nd for nd in cfg.nodes if nd.kind == 'stmt' and isinstance(nd.ast, ast.Return) and isinstance(nd.ast.value, ast.Compare)]:
        seen, stack, hit = set(), [cfg.entry], False
        while stack:
            n = stack.pop()
            if n in seen:
                continue
            seen.add(n)
            if n == r.id:
                hit = True
                break
            node = cfg.nodes[n]
            for m, lab in cfg.succ[n]:
                if node.kind == 'cond' and (norm(node.ast), lab == 'T') in role_ok:
                    continue
                stack.append(m)
        rep.add(f'penman.layout:appears_inverted: `{norm(r.ast)}` is reached only for non-instance triples', fi.loc(r.ast), 'violation' if hit else 'ok',
                f'an instance triple can reach `{norm(r.ast)}`: for a node like (a / a), whose concept is spelled like a variable, the concept is compared with the node context '
                f'and the instance triple is reported as inverted' if hit else '')
    # Push present: answer is `pushed variable == source`; otherwise `node context == target`
    from ..resolve import expand
    rets = [n for n in walk_local(fi.node) if isinstance(n, ast.Return) and isinstance(n.value, ast.Compare)
            and len(n.value.ops) == 1 and isinstance(n.value.ops[0], ast.Eq)]
    ctxvar = norm(ctx_loop.target.elts[0]) if isinstance(ctx_loop.target, ast.Tuple) and ctx_loop.target.elts else None
    seen_push = seen_ctx = False
    for r in rets:
        sides = [r.value.left, r.value.comparators[0]]
        ex = [norm(expand(ctx, fi, x, r)) for x in sides]
        raw = [norm(x) for x in sides]
        in_loop = any(x is r for x in ast.walk(ctx_loop))
        slot = next((x for x in raw if x.startswith(f'{tp}[')), None)
        other = next((e for e, x in zip(ex, raw) if x != slot), None)
        if slot is None or other is None:
            continue
        if not in_loop and other.startswith('get_pushed_variable('):
            seen_push = True
            rep.add('penman.layout:appears_inverted: with a Push marker the answer is (pushed variable == source)', fi.loc(r),
                    'ok' if slot == f'{tp}[0]' else 'violation',
                    '' if slot == f'{tp}[0]' else f'the pushed variable is compared with {slot}: a triple whose target was pushed (the normal, '
                                                  f'uninverted case) is reported as inverted')
        elif in_loop and ctxvar is not None and any(x == ctxvar for x in raw):
            seen_ctx = True
            rep.add('penman.layout:appears_inverted: without one the answer is (node context == target)', fi.loc(r),
                    'ok' if slot == f'{tp}[2]' else 'violation',
                    '' if slot == f'{tp}[2]' else f'the node context is compared with {slot}: a triple written under its own source '
                                                  f'(the normal case) is reported as inverted')
    if not seen_push:
        rep.undecided('penman.layout:appears_inverted: with a Push marker the answer is (pushed variable == source)', fi.loc())
    if not seen_ctx:
        rep.undecided('penman.layout:appears_inverted: without one the answer is (node context == target)', fi.loc())
    return rep


@rule('R47', 'reconfigure resolves the top before it reorders the triples (the implicit top is the first triple\'s source)')
def r47(ctx: Ctx) -> RuleReport:
    rep = RuleReport('R47', r47.title, floor=1)
    fi = ctx.repo.func(L, 'reconfigure')
    gp = fi.positional[0]
    cfg = CFG(fi.node)
    pm = ctx.repo.parent_map(fi.node)
    sorts = [n for n in walk_local(fi.node) if isinstance(n, ast.Call) and isinstance(n.func, ast.Attribute)
             and n.func.attr in ('sort', 'reverse') and norm(n.func.value).endswith('.triples')]
    from ..resolve import calls_where

    def sorts_triples(f: FuncInfo) -> bool:
        return f.qualname != 'configure' and any(
            isinstance(n, ast.Call) and isinstance(n.func, ast.Attribute) and n.func.attr in ('sort', 'reverse')
            and norm(n.func.value).endswith('.triples') for n in walk_local(f.node))
    sorts += calls_where(ctx, fi, sorts_triples, depth=1)
    confs = [c for c, ts in ctx.cg.calls_in(fi) if any(t.kind == 'func' and t.func.qualname == 'configure' for t in ts)]
    if not confs:
        raise AnalysisError('reconfigure no longer calls configure')
    for c in confs:
        top = next((k.value for k in c.keywords if k.arg == 'top'), c.args[1] if len(c.args) > 1 else None)
        key = f'penman.layout:reconfigure: {norm(c)[:70]}'
        if not sorts:
            rep.ok(key, fi.loc(c), 'triples are not reordered')
            continue
        if top is None or not isinstance(top, ast.Name):
            rep.violation(key, fi.loc(c), 'configure is called without an explicit top after the triples were sorted: the implicit '
                          'top (source of the first triple) now depends on the sort key')
            continue
        tn = top.id
        # proven non-None: `tn is None` false edge, or tn re-bound from <graph>.top on the None path
        accept = {(f'{tn} is None', False), (f'{tn} is not None', True)}
        # treat `tn = g.top` / `tn = p.top` executed BEFORE any sort as establishing the top
        sort_nodes = {owner_node(cfg, pm, s) for s in sorts}
        states: Dict[int, Set[str]] = {cfg.entry: {'U'}}
        work = [cfg.entry]
        while work:
            n = work.pop()
            node = cfg.nodes[n]
            for m, lab in cfg.succ[n]:
                out = set()
                for s in states[n]:
                    unproven, sorted_ = s[0] == 'U', s.endswith('S')
                    if node.kind == 'stmt' and isinstance(node.ast, ast.Assign) and tn in assigned_names(node.ast):
                        v = node.ast.value
                        # top = g.top if top is None else top   (either way round)
                        if isinstance(v, ast.IfExp) and norm(v.test).replace(' ', '') in (f'{tn}isNone', f'{tn}isnotNone'):
                            none_arm, other_arm = (v.body, v.orelse) if norm(v.test).replace(' ', '') == f'{tn}isNone' else (v.orelse, v.body)
                            if isinstance(other_arm, ast.Name) and other_arm.id == tn:
                                v = none_arm
                        if isinstance(v, ast.Attribute) and v.attr == 'top' and not sorted_:
                            unproven = False
                        elif isinstance(v, ast.Attribute) and v.attr == 'top' and isinstance(v.value, ast.Name) and v.value.id == gp:
                            unproven = False     # the original graph is never sorted
                        else:
                            unproven = True
                    if node.kind == 'cond' and (norm(node.ast), lab == 'T') in accept:
                        unproven = False
                    if n in sort_nodes:
                        sorted_ = True
                    out.add(('U' if unproven else 'P') + ('S' if sorted_ else ''))
                if not out <= states.get(m, set()):
                    states.setdefault(m, set()).update(out)
                    work.append(m)
        cn = owner_node(cfg, pm, c)
        bad = 'US' in states.get(cn, set())
        rep.add(key, fi.loc(c), 'violation' if bad else 'ok',
                f'when `{tn}` is None the callee falls back to the graph\'s implicit top, i.e. the source of the first triple of '
                f'the *sorted* copy: reconfigure(g, key=...) of a graph without an explicit top can change the top' if bad else
                'the top is fixed before the triples are reordered')
    return rep


@rule('R67', 'a node-map entry is replaced by a fresh node only after the existing entry was looked at (a variable gets one node)')
def r67(ctx: Ctx) -> RuleReport:
    from ..resolve import view
    rep = RuleReport('R67', r67.title, floor=2)
    for fi in ctx.repo.module(L).functions.values():
        v = None
        for n in walk_local(fi.node):
            if not (isinstance(n, ast.Assign) and isinstance(n.targets[0], ast.Subscript) and isinstance(n.targets[0].value, ast.Name)
                    and 'nodemap' in n.targets[0].value.id and isinstance(n.value, ast.Tuple) and len(n.value.elts) == 2
                    and isinstance(n.value.elts[1], ast.List) and not n.value.elts[1].elts
                    and norm(n.value.elts[0]) == norm(n.targets[0].slice)):
                continue
            nm, k = n.targets[0].value.id, norm(n.targets[0].slice)
            v = v or view(ctx, fi)
            key = f'{fi.module.name}:{fi.qualname}: {norm(n)}'
            # a map created in this function with every entry None holds no node yet
            fresh = any((isinstance(x, ast.DictComp) and isinstance(x.value, ast.Constant) and x.value.value is None) or
                        (isinstance(x, ast.Call) and norm(x.func) == 'dict.fromkeys' and len(x.args) == 1)
                        for val in ctx.cg.local_assigns(fi).get(nm, []) if isinstance(val, ast.AST) for x in [val])
            if fresh:
                rep.ok(key, fi.loc(n), 'the map was just created with no nodes in it')
                continue

            def reads(nd) -> bool:
                if nd.ast is None or nd.ast is n:
                    return False
                root = nd.ast
                if nd.kind in ('for', 'while', 'loophead') or isinstance(root, (ast.For, ast.While, ast.If, ast.FunctionDef)):
                    root = getattr(root, 'test', None) or getattr(root, 'iter', None)
                    if root is None:
                        return False
                for x in ast.walk(root):
                    if isinstance(x, ast.Subscript) and isinstance(x.ctx, ast.Load) and norm(x.value) == nm and norm(x.slice) == k:
                        return True
                    if isinstance(x, ast.Call) and isinstance(x.func, ast.Attribute) and x.func.attr == 'get' and norm(x.func.value) == nm \
                            and x.args and norm(x.args[0]) == k:
                        return True
                return False
            sn = v.cfg.node_of(n)
            path = v.cfg.path_avoiding([(v.cfg.entry, None)], {sn}, reads)
            # path_avoiding stops at the first target; a loop may bring us back, so also start from the loop heads
            rep.add(key, fi.loc(n), 'violation' if path else 'ok',
                    f'`{norm(n)}` can run without `{nm}[{k}]` having been read first ('
                    + ' -> '.join(repr(v.cfg.nodes[p]) for p in path[-4:])[:200] +
                    f'): when {k} already has a node, a second node is opened for it and the variable is defined twice in the text, '
                    f'so the encoded graph decodes with an extra instance triple' if path else 'the existing entry is read on every path to the store')
    return rep


# ---------------------------------------------------------------------------------------------
def _r83_early_return_form(ctx, rep, fi, cfg, IN, pm, rets):
    """_find_next written with early returns: every `return data[k:], v, data[:k]` inside the search loop is a hit that ends the search"""
    in_loop = [r for r in rets if any(isinstance(a, (ast.For, ast.While)) for a in _ancestors(pm, r))]
    for r in in_loop:
        loop = next(a for a in _ancestors(pm, r) if isinstance(a, (ast.For, ast.While)))
        outer = [a for a in _ancestors(pm, r) if isinstance(a, (ast.For, ast.While))]
        idx = set()
        for part in (r.value.elts[0], r.value.elts[2]):
            idx |= {x.id for x in ast.walk(expand(ctx, fi, part, r)) if isinstance(x, ast.Name)}
        lvs = set()
        for lp in outer:
            if isinstance(lp, ast.For):
                lvs |= {x.id for x in ast.walk(lp.target) if isinstance(x, ast.Name)}
        key = f'{fi.fq}: `{norm(r)[:60]}` splits the data at the datum that was found'
        if lvs & idx:
            rep.ok(key, fi.loc(r))
        else:
            rep.violation(key, fi.loc(r), f'the hit is found in the loop over {sorted(lvs)}, but the split point is computed from {sorted(idx)}: variable and data halves belong to different data')
    if not in_loop:
        rep.undecided(f'{fi.fq}: a hit returns from inside the search loop', fi.loc(), 'no three-part return inside a loop')
    conds = [nd for nd in cfg.nodes if nd.kind == 'cond' and norm(nd.ast).startswith('isinstance(') and norm(nd.ast).endswith(', Pop)')]
    if not conds:
        rep.undecided(f'{fi.fq}: POP data are recognised with isinstance(datum, Pop)', fi.loc())
    for c in conds:
        dn = norm(c.ast.args[0])
        loop = next((a for a in _ancestors(pm, c.ast) if isinstance(a, (ast.For, ast.While))), None)
        if loop is None:
            rep.undecided(f'{fi.fq}: a POP datum is skipped and the search goes on', fi.loc(c.ast))
            continue
        head = cfg.node_of(loop)
        leaves = cfg.path_avoiding([(c.id, 'T')], {cfg.exit, cfg.rexit}, lambda nd: nd.id == head)
        rep.add(f'{fi.fq}: a POP datum is skipped and the search goes on', fi.loc(c.ast), 'violation' if leaves else 'ok',
                'a POP datum ends the search' if leaves else '')
        for sb in [n for n in ast.walk(loop) if isinstance(n, ast.Subscript) and norm(n.value) == dn][:3]:
            fx = facts_at(cfg, IN, pm, sb)
            rep.add(f'{fi.fq}: `{norm(sb)}` is only evaluated for data that are not POP', fi.loc(sb), 'ok' if (norm(c.ast), False) in fx else 'violation',
                    '' if (norm(c.ast), False) in fx else f'`{norm(sb)}` can be evaluated for a POP datum (a Pop object is not subscriptable)')
    return rep


def _r83_no_pop_test(ctx, rep, fi) -> None:
    """_find_next has no POP test at all.  The pending data it is given are what _preconfigure built (POP items between the triples) minus what
    configure has consumed; unless the caller filters the POPs out, an item taken apart as (triple, push, epis) can be a POP."""
    key = f'{fi.fq}: POP data are recognised with isinstance(datum, Pop)'
    dparam = fi.positional[0]
    pre = ctx.repo.maybe_func(L, '_preconfigure')
    makes_pops = pre is not None and any(isinstance(x, ast.Name) and x.id in ('POP', 'Pop', 'pops') for x in ast.walk(pre.node))
    taken_apart = None
    for n in walk_local(fi.node):
        if isinstance(n, ast.Assign) and isinstance(n.targets[0], ast.Tuple) and isinstance(n.value, ast.Subscript) and norm(n.value.value) == dparam:
            taken_apart = n
        elif isinstance(n, ast.Subscript) and isinstance(n.value, ast.Subscript) and norm(n.value.value) == dparam:
            taken_apart = taken_apart or n
        elif isinstance(n, ast.For) and norm(n.iter).replace('reversed(', '').rstrip(')') == dparam and isinstance(n.target, ast.Tuple):
            taken_apart = taken_apart or n
    filtered = False
    for cfi, call in ctx.cg.callers.get(fi.fq, []):
        a = call.args[0] if call.args else None
        names = {x.id for x in ast.walk(a) if isinstance(x, ast.Name)} if a is not None else set()
        for n in walk_local(cfi.node):
            if isinstance(n, (ast.ListComp, ast.GeneratorExp)) and 'Pop' in norm(n):
                filtered = True
            if isinstance(n, ast.Call) and norm(n.func) in ('filter', 'filterfalse', 'itertools.filterfalse') and 'Pop' in norm(n):
                filtered = True
        if not names:
            filtered = True
    from ..resolve import local_callees
    # any other way of telling POPs apart (datum is POP, type(datum) is Pop, a helper, a try/except around the unpacking) is not read here
    mentions = any(isinstance(x, ast.Name) and x.id in ('POP', 'Pop') for f_ in local_callees(ctx, fi, depth=2) for x in ast.walk(f_.node)) \
        or any(isinstance(x, (ast.Try, ast.Match)) for x in ast.walk(fi.node)) or any(isinstance(x, ast.Call) and norm(x.func) in ('len', 'type', 'hasattr', 'getattr') and dparam in norm(x) for x in ast.walk(fi.node) if not (isinstance(x, ast.Call) and norm(x) == f'len({dparam})'))
    if makes_pops and taken_apart is not None and not filtered and not mentions and ctx.cg.callers.get(fi.fq):
        rep.violation(key, fi.loc(taken_apart), f'`{norm(taken_apart).splitlines()[0][:60]}` takes every pending item apart as (triple, push, markers), but the pending data still hold the '
                      f'POP items _preconfigure put between the triples (configure only strips those at the head): as soon as the layout has to improvise a node context past a POP '
                      f'- a hand-built or re-topped graph - encode() raises TypeError instead of writing the graph')
    else:
        rep.undecided(key, fi.loc())


@rule('R83', '_find_next skips POP data, stops at the first datum it can place and splits the pending data exactly there')
def r83(ctx: Ctx) -> RuleReport:
    rep = RuleReport('R83', r83.title, floor=2)
    fi = ctx.repo.func(L, '_find_next')
    cfg = CFG(fi.node)
    IN = cond_facts(cfg)
    pm = ctx.repo.parent_map(fi.node)
    rets = [n for n in walk_local(fi.node) if isinstance(n, ast.Return) and isinstance(n.value, ast.Tuple) and len(n.value.elts) == 3]
    if len(rets) > 1:
        return _r83_early_return_form(ctx, rep, fi, cfg, IN, pm, rets)
    if len(rets) != 1:
        rep.undecided(f'{fi.fq}: returns (data after the split, variable, data before the split)', fi.loc(), f'{len(rets)} three-part returns')
        return rep
    ret = rets[0]
    var = ret.value.elts[1]
    if not isinstance(var, ast.Name):
        rep.undecided(f'{fi.fq}: the variable found is returned by name', fi.loc(ret), norm(var))
        return rep
    # index names the two slices are computed from
    idx = set()
    for part in (ret.value.elts[0], ret.value.elts[2]):
        ex = expand(ctx, fi, part, ret)
        idx |= {x.id for x in ast.walk(ex) if isinstance(x, ast.Name)}
    hits = [n for n in walk_local(fi.node) if isinstance(n, ast.Assign) and len(n.targets) == 1 and isinstance(n.targets[0], ast.Name)
            and n.targets[0].id == var.id and not (isinstance(n.value, ast.Constant) and n.value.value is None)]
    if not hits:
        rep.undecided(f'{fi.fq}: a variable is chosen inside the search loop', fi.loc(), f'no assignment to {var.id}')
        return rep
    for h in hits:
        loops_h = [a for a in _ancestors(pm, h) if isinstance(a, (ast.For, ast.While))]
        loop = loops_h[0] if loops_h else None
        key = f'{fi.fq}: `{norm(h)}` ends the search and the data are split at that datum'
        if loop is None:
            rep.undecided(key, fi.loc(h), 'not inside a loop')
            continue
        # an inner loop over the two ends of the current triple (`for candidate in (source, target)`): the loop that matters is the enclosing
        # one that walks the data, provided the hit leaves both loops at once
        if len(loops_h) >= 2 and isinstance(loop, ast.For) and isinstance(loop.iter, (ast.Tuple, ast.List)):
            outer_l = loops_h[1]
            if not cfg.path_avoiding([(cfg.node_of(h), None)], {cfg.node_of(outer_l), cfg.node_of(loop)}, lambda nd: False):
                loop = outer_l
        head = cfg.node_of(loop)
        hn = cfg.node_of(h)
        back = cfg.path_avoiding([(hn, None)], {head}, lambda nd: False)
        if back:
            rep.violation(key, fi.loc(h), f'after `{norm(h)}` the loop goes on ({" -> ".join(repr(cfg.nodes[x]) for x in back[-3:])[:120]}): the variable of a later datum '
                          f'can replace the hit while the split index keeps moving, so the datum that made the choice ends up on the wrong side of the split')
            continue
        lv = {x.id for x in ast.walk(loop.target) if isinstance(x, ast.Name)} if isinstance(loop, ast.For) else set()
        if isinstance(loop, ast.For) and not (lv & idx):
            rep.violation(key, fi.loc(h), f'this hit is found in the loop over `{norm(loop.target)}`, but the split point is computed from {sorted(idx & {x.id for x in ast.walk(fi.node) if isinstance(x, ast.Name)})}: '
                          f'the variable returned and the two halves of the data belong to different data, and configure then reports "incomplete configuration" '
                          f'or misplaces triples for a connected graph')
            continue
        rep.ok(key, fi.loc(h))
    # POP data: skipped (never subscripted, never a reason to stop)
    conds = [nd for nd in cfg.nodes if nd.kind == 'cond' and norm(nd.ast).startswith('isinstance(') and norm(nd.ast).endswith(', Pop)')]
    if not conds:
        _r83_no_pop_test(ctx, rep, fi)
    for c in conds:
        dn = norm(c.ast.args[0])
        loop = next((a for a in _ancestors(pm, c.ast) if isinstance(a, (ast.For, ast.While))), None)
        key = f'{fi.fq}: a POP datum is skipped and the search goes on'
        if loop is None:
            rep.undecided(key, fi.loc(c.ast))
            continue
        head = cfg.node_of(loop)
        t_succ = [(m, lab) for m, lab in cfg.succ[c.id] if lab == 'T']
        # from the T edge: must come back to the loop head, without leaving the loop, without touching datum[...]
        leaves = cfg.path_avoiding([(c.id, 'T')], {cfg.exit, cfg.rexit} | {cfg.node_of(ret)}, lambda nd: nd.id == head) if t_succ else None
        if not t_succ:
            rep.violation(key, fi.loc(c.ast), 'the POP test can never succeed: a POP datum is subscripted like a triple (TypeError instead of a tree or LayoutError)')
        elif leaves:
            rep.violation(key, fi.loc(c.ast), f'a POP datum ends the search ({" -> ".join(repr(cfg.nodes[x]) for x in leaves[-3:])[:120]}): triples queued before it are never '
                          f'considered, and configure reports a connected graph as disconnected')
        else:
            rep.ok(key, fi.loc(c.ast))
        subs = [n for n in ast.walk(loop) if isinstance(n, ast.Subscript) and norm(n.value) == dn]
        for sb in subs[:3]:
            fx = facts_at(cfg, IN, pm, sb)
            k2 = f'{fi.fq}: `{norm(sb)}` is only evaluated for data that are not POP'
            if (norm(c.ast), False) in fx:
                rep.ok(k2, fi.loc(sb))
            else:
                rep.violation(k2, fi.loc(sb), f'`{norm(sb)}` can be evaluated for a POP datum (a Pop object is not subscriptable): encode raises TypeError for a graph '
                              f'whose pending data contain a POP')
    return rep


# ---------------------------------------------------------------------------------------------
@rule('R97', 'in _configure_node a triple that had to be turned around never opens a nested node (its Push was recorded for the other direction)')
def r97(ctx: Ctx) -> RuleReport:
    rep = RuleReport('R97', r97.title, floor=1)
    fi = ctx.repo.func(L, '_configure_node')
    cfg = CFG(fi.node)
    pm = ctx.repo.parent_map(fi.node)
    recs = [c for c, ts in ctx.cg.calls_in(fi) if any(t.kind == 'func' and t.func.fq == fi.fq for t in ts)]
    turns = [n for n in walk_local(fi.node) if isinstance(n, ast.Assign) and isinstance(n.value, ast.Call) and isinstance(n.value.func, ast.Attribute)
             and n.value.func.attr == 'invert' and 'model' in norm(n.value.func.value)]
    if not recs or not turns:
        rep.undecided(f'{fi.fq}: the unexpected-inversion arm (model.invert) and the recursive call are found', fi.loc(), f'{len(turns)} inversions, {len(recs)} recursive calls')
        return rep
    # the flag that guards the recursion
    flags = set()
    for c in recs:
        from ..resolve import facts_ex
        for f, pol in facts_ex(ctx, fi, c):
            if pol and f.isidentifier() and f not in ('True', 'data'):
                flags.add(f)
    if not flags:
        rep.undecided(f'{fi.fq}: the recursive call is guarded by the push flag of the datum', fi.loc(recs[0]), 'no simple flag among the facts of the call')
        return rep
    # the "node exists already" test looks at the variable of the mapped node and clears the flag
    import re as _re
    for nd in cfg.nodes:
        if nd.kind != 'cond':
            continue
        m_ = _re.fullmatch(r'(\w+)\[(-?\d+)\] == (\w+)', norm(nd.ast))
        if not m_:
            continue
        d_ = single_def(ctx, fi, ast.Name(id=m_.group(1), ctx=ast.Load()))
        nmx = next((x for x in ast.walk(nd.ast) if isinstance(x, ast.Name) and x.id == m_.group(1)), None)
        d_ = single_def(ctx, fi, nmx) if nmx is not None else None
        if d_ is None or '.get(' not in norm(d_) and '[' not in norm(d_):
            continue
        key = f'{fi.fq}: `{norm(nd.ast)}` recognises a node that exists already by its variable, and then does not open it again'
        if m_.group(2) != '0':
            rep.violation(key, fi.loc(nd.ast), f'element {m_.group(2)} of the mapped node (var, branches) is compared with the target: it is never equal to a variable, so the test never '
                          f'fires and a node can be opened twice (its second occurrence is written as a full node again)')
            continue
        clears2 = {n2.id for n2 in cfg.nodes if n2.kind == 'stmt' and isinstance(n2.ast, ast.Assign) and any(isinstance(x, ast.Name) and x.id in flags for x in n2.ast.targets)
                   and isinstance(n2.ast.value, ast.Constant) and n2.ast.value.value is False}
        heads2 = {n2.id for n2 in cfg.nodes if n2.kind == 'loophead'}
        bad_path = None
        for c in recs:
            cn2 = owner_node(cfg, pm, c)
            bad_path = bad_path or cfg.path_avoiding([(nd.id, 'T')], {cn2}, lambda n2: n2.id in clears2 or n2.id in heads2)
        if bad_path:
            rep.violation(key, fi.loc(nd.ast), f'although the node exists already, the same datum can still reach the recursive call ({" -> ".join(repr(cfg.nodes[x]) for x in bad_path[-3:])[:140]}): '
                          f'the node is opened a second time')
        else:
            rep.ok(key, fi.loc(nd.ast))
    if not any('recognises a node that exists already' in i.key for i in rep.instances):
        # is the map of configured nodes consulted at all before a node is opened?
        nm_param = fi.positional[2] if len(fi.positional) > 2 else 'nodemap'
        derived = {nm for nm, vals in ctx.cg.local_assigns(fi).items() for v in vals if isinstance(v, ast.AST) and nm_param in norm(v) and not isinstance(v, ast.Tuple)}
        consult = []
        for nd in cfg.nodes:
            if nd.kind == 'cond' and any(isinstance(x, ast.Name) and (x.id in derived) for x in ast.walk(nd.ast)):
                clears3 = {n2.id for n2 in cfg.nodes if n2.kind == 'stmt' and isinstance(n2.ast, ast.Assign) and any(isinstance(x, ast.Name) and x.id in flags for x in n2.ast.targets)
                           and isinstance(n2.ast.value, ast.Constant) and n2.ast.value.value is False}
                if any(cfg.path_avoiding([(nd.id, lab)], clears3, lambda n2: n2.kind == 'loophead') for lab in ('T', 'F')):
                    consult.append(nd)
        key = f'{fi.fq}: a Push whose node exists already does not open it again'
        if consult:
            rep.undecided(key, fi.loc(consult[0].ast), f'`{norm(consult[0].ast)[:60]}` consults the node map and can clear the flag, in a form this rule does not read')
        else:
            rep.violation(key, fi.loc(recs[0]), f'no test that involves the map of configured nodes ({sorted(derived) or nm_param}) can clear {sorted(flags)} before `{norm(recs[0])[:40]}`: a Push marker '
                          f'that names a node which was configured already (the graph was re-topped, or triples were reordered) opens that node a second time - its first '
                          f'occurrence is orphaned in the map and the variable is written as a full node twice')
    for t in turns:
        tn = cfg.node_of(t)
        for c in recs:
            cn = owner_node(cfg, pm, c)
            key = f'{fi.fq}: after `{norm(t)[:50]}` the triple cannot reach `{norm(c)[:40]}` with its old push flag'
            clears = {nd.id for nd in cfg.nodes if nd.kind == 'stmt' and isinstance(nd.ast, ast.Assign) and any(isinstance(x, ast.Name) and x.id in flags for x in nd.ast.targets)
                      and isinstance(nd.ast.value, ast.Constant) and nd.ast.value.value is False}
            # a path from the inversion to the recursion that avoids every `flag = False` and does not start a new datum
            loop_heads = {nd.id for nd in cfg.nodes if nd.kind == 'loophead'}
            path = cfg.path_avoiding([(tn, None)], {cn}, lambda nd: nd.id in clears or nd.id in loop_heads)
            if path:
                rep.violation(key, fi.loc(t), f'the flag {sorted(flags)} survives the inversion ({" -> ".join(repr(cfg.nodes[x]) for x in path[-4:])[:160]}): the Push marker was recorded for the '
                              f'triple as written, naming the variable that is now the *source*; after turning the triple round its target (possibly a constant such as "-") is opened as a node: '
                              f'(a :polarity (-)) is written, which decodes with an extra variable')
            else:
                rep.ok(key, fi.loc(t))
    return rep


# ---------------------------------------------------------------------------------------------
@rule('R108', 'in configure, what _find_next passed over is kept for a later round on every path (no pending triple is dropped)')
def r108(ctx: Ctx) -> RuleReport:
    rep = RuleReport('R108', r108.title, floor=1)
    fi = ctx.repo.func(L, 'configure')
    cfg = CFG(fi.node)
    pm = ctx.repo.parent_map(fi.node)
    unp = [n for n in walk_local(fi.node) if isinstance(n, ast.Assign) and isinstance(n.targets[0], ast.Tuple) and len(n.targets[0].elts) == 3
           and isinstance(n.value, ast.Call) and norm(n.value.func).endswith('_find_next')]
    if len(unp) != 1 or not isinstance(unp[0].targets[0].elts[0], ast.Name):
        rep.undecided(f'{fi.fq}: `passed_over, var, data = _find_next(data, nodemap)`', fi.loc(), f'{len(unp)} such statements')
        return rep
    a = unp[0]
    S = a.targets[0].elts[0].id
    loop = next((x for x in _ancestors(pm, a) if isinstance(x, (ast.While, ast.For))), None)
    if loop is None:
        rep.undecided(f'{fi.fq}: _find_next is called in the improvisation loop', fi.loc(a))
        return rep
    head = cfg.node_of(loop)
    uses = set()
    for x in ast.walk(loop):
        if isinstance(x, ast.Name) and x.id == S and isinstance(x.ctx, ast.Load):
            try:
                uses.add(owner_node(cfg, pm, x))
            except Exception:
                pass
    key = f'{fi.fq}: `{S}` (the data _find_next passed over) is put back before the next round'
    if not uses:
        rep.violation(key, fi.loc(a), f'`{S}` is never read: every datum that _find_next skips is lost, the triples are missing from the encoded text')
        return rep
    raises = {nd.id for nd in cfg.nodes if nd.kind == 'stmt' and isinstance(nd.ast, ast.Raise)}
    path = cfg.path_avoiding([(cfg.node_of(a), None)], {head}, lambda nd: nd.id in uses or nd.id in raises)
    if path:
        rep.violation(key, fi.loc(a), f'the loop can start its next round without `{S}` having been used ({" -> ".join(repr(cfg.nodes[x]) for x in path[-4:])[:170]}): on that path the data that were '
                      f'passed over are dropped - a triple (for instance the instance triple of a node) silently disappears from the encoded graph')
    else:
        rep.ok(key, fi.loc(a), f'used at {len(uses)} place(s), on every path back to the loop head')
    return rep


# ---------------------------------------------------------------------------------------------
@rule('R110', "interpretation separates a role or atom from its alignment at the first '~' the token can contain: no search for it starts behind a position where it can stand")
def r110(ctx: Ctx) -> RuleReport:
    import re as _re
    from ..rx import Lang
    from ..resolve import facts_ex
    rep = RuleReport('R110', r110.title, floor=1)
    cp = ctx.lex.compiled['PENMAN_RE']
    langs = {'ROLE+ALIGNMENT': cp.lang('ROLE').cat(cp.lang('ALIGNMENT')), 'SYMBOL+ALIGNMENT': cp.lang('SYMBOL').cat(cp.lang('ALIGNMENT'))}
    m = ctx.repo.module('penman.layout')
    for fi in m.all_funcs:
        for n in walk_local(fi.node):
            if not (isinstance(n, ast.Call) and isinstance(n.func, ast.Attribute) and n.args and try_fold(n.args[0]) == (True, '~')
                    and n.func.attr in ('partition', 'split', 'find', 'index', 'rpartition', 'rsplit', 'rfind', 'rindex')):
                continue
            key = f'{fi.fq}: `{norm(n)[:50]}` finds the alignment of the token'
            quoted = any(pol and '.startswith(' in f and '"' in f for f, pol in facts_ex(ctx, fi, n))
            attr = n.func.attr
            if attr in ('find', 'index') and len(n.args) >= 2:
                oks, k = try_fold(n.args[1], {}, ctx.repo, fi.module)
                if not oks or not isinstance(k, int):
                    rep.undecided(key, fi.loc(n), 'the search starts at a position that is not a constant')
                    continue
                if k <= 0:
                    rep.ok(key, fi.loc(n), 'search from the start')
                    continue
                early = Lang.from_pattern('.{0,%d}~.*' % (k - 1), _re.S)
                wit = [(nm, L.witness_intersection(early)) for nm, L in langs.items()]
                wit = [(nm, w) for nm, w in wit if w is not None]
                if wit and not quoted:
                    nm, w = wit[0]
                    rep.violation(key, fi.loc(n), f'the search skips the first {k} characters, but a {nm} token can have its "~" there: {w!r} - the alignment stays glued to '
                                  f'the role/atom (a different role or symbol) and the alignment marker is lost')
                else:
                    rep.ok(key, fi.loc(n), f'no role or symbol token has "~" among its first {k} characters')
            elif attr in ('partition', 'split', 'find', 'index'):
                rep.ok(key, fi.loc(n), 'first "~"')
            else:
                twice = Lang.from_pattern('.*~.*~.*', _re.S)
                wit = [(nm, L.witness_intersection(twice)) for nm, L in langs.items()]
                wit = [(nm, w) for nm, w in wit if w is not None]
                if quoted or not wit:
                    rep.ok(key, fi.loc(n), 'last "~" (a role or symbol token holds at most one)' if not quoted else 'last "~" of a quoted string')
                else:
                    rep.undecided(key, fi.loc(n), f'last "~", and a token can hold two: {wit[0][1]!r}')
    return rep


# ---------------------------------------------------------------------------------------------
@rule('R113', 'node_contexts: the node of the target is a candidate context for every relation whose target is a variable of the graph (not for a subset of them)')
def r113(ctx: Ctx) -> RuleReport:
    from ..resolve import facts_ex
    rep = RuleReport('R113', r113.title, floor=1)
    fi = ctx.repo.func('penman.layout', 'node_contexts')
    g = fi.positional[0]
    las = ctx.cg.local_assigns(fi)
    tests = []
    for n in walk_local(fi.node):
        if isinstance(n, ast.Compare) and len(n.ops) == 1 and isinstance(n.ops[0], (ast.In, ast.NotIn)) and isinstance(n.left, ast.Subscript) \
                and try_fold(n.left.slice) == (True, 2):
            tests.append(n)
    if not tests:
        rep.undecided(f'{fi.fq}: the target is tested for being a variable', fi.loc(), 'no `<triple>[2] in <set>` test')
        return rep
    for t in tests:
        key = f'{fi.fq}: `{norm(t)}` asks whether the target is a variable of the graph'
        s = t.comparators[0]
        src = s
        if isinstance(s, ast.Name):
            vals = las.get(s.id, [])
            if len(vals) != 1 or not isinstance(vals[0], ast.AST):
                rep.undecided(key, fi.loc(t), f'`{s.id}` has {len(vals)} definitions')
                continue
            src = vals[0]
        if isinstance(src, ast.Call) and isinstance(src.func, ast.Attribute) and norm(src.func.value) == g:
            if src.func.attr == 'variables':
                rep.ok(key, fi.loc(t), f'{norm(src)}')
            elif src.func.attr in ('reentrancies', 'edges', 'attributes', 'instances'):
                what = {'reentrancies': 'only the variables with more than one incoming relation (or the top with one)', 'edges': 'edge triples',
                        'attributes': 'attribute triples', 'instances': 'instance triples'}[src.func.attr]
                rep.violation(key, fi.loc(t), f'the set is {norm(src)}: {what}, not the variables. A relation written from its target\'s node whose target is not in '
                              f'that set (an inverted edge to a node that is mentioned once, e.g. "(b / B :ARG0-of (a / A))" re-topped, or any hand-ordered graph) '
                              f'finds no eligible context, and from there on every context is reported unknown')
            else:
                rep.undecided(key, fi.loc(t), norm(src)[:60])
        elif isinstance(src, ast.SetComp) and isinstance(src.elt, (ast.Name, ast.Subscript)):
            rep.add(key, fi.loc(t), 'info', f'a set built locally: {norm(src)[:60]}')
        else:
            rep.undecided(key, fi.loc(t), norm(src)[:60])
    return rep


# ---------------------------------------------------------------------------------------------
@rule('R124', 'node_contexts: the target is a candidate only for relations to a variable, a context is recorded only when the stack top is a candidate, and the first mismatch ends the simulation')
def r124(ctx: Ctx) -> RuleReport:
    from ..resolve import facts_ex
    rep = RuleReport('R124', r124.title, floor=2)
    fi = ctx.repo.func('penman.layout', 'node_contexts')
    def over_triples(it):
        while isinstance(it, ast.Call) and norm(it.func) in ('enumerate', 'list', 'iter') and it.args:
            it = it.args[0]
        if isinstance(it, ast.Name):
            it = single_def(ctx, fi, it)
        return isinstance(it, ast.Attribute) and it.attr == 'triples'
    loops = [n for n in walk_local(fi.node) if isinstance(n, ast.For) and over_triples(n.iter)]
    if len(loops) != 1:
        rep.undecided(f'{fi.fq}: one loop over the triples', fi.loc(), f'{len(loops)} loops')
        return rep
    loop = loops[0]
    tnames = [x.id for x in ast.walk(loop.target) if isinstance(x, ast.Name)]
    tv = tnames[-1] if tnames else None
    # (a) the target joins the candidates only under role != CONCEPT_ROLE and target in variables
    apps = [n for n in ast.walk(loop) if isinstance(n, ast.Call) and isinstance(n.func, ast.Attribute) and n.func.attr == 'append' and n.args
            and any(isinstance(x, ast.Subscript) and norm(x.value) == tv and try_fold(x.slice) == (True, 2) for x in ast.walk(n.args[0]))]
    for a in apps:
        lst = norm(a.func.value)
        fx = {(f.replace(' ', ''), pol) for f, pol in facts_ex(ctx, fi, a)}
        not_concept = (f'{tv}[1]!=CONCEPT_ROLE', True) in fx or (f'{tv}[1]==CONCEPT_ROLE', False) in fx
        is_var = any(pol and f.startswith(f'{tv}[2]in') for f, pol in fx) or any((not pol) and f.startswith(f'{tv}[2]notin') for f, pol in fx)
        key = f'{fi.fq}: `{norm(a)[:50]}` makes the target a candidate context'
        # (the membership test itself is redundant for the outcome: a target that is no variable can only equal the stack top - a variable - if it is
        # spelled like one, and then it passes the membership test as well; what matters is that a concept is never a candidate)
        if not_concept:
            rep.ok(key, fi.loc(a), 'only for a relation' + (' whose target is a variable' if is_var else ''))
        else:
            miss = [w for w, okk in (('the role is not the concept role', not_concept),) if not okk]
            rep.violation(key, fi.loc(a), f'the target is added to `{lst}` without it being established that {" and that ".join(miss)}: a concept or constant that is spelled like '
                          f'the variable on top of the stack - (a / a), :polarity a - is taken for the node the triple was written in, and the simulation runs on where '
                          f'it should have stopped')
    if not apps:
        rep.undecided(f'{fi.fq}: the target of a relation is a candidate context', fi.loc(loop), 'no append of <triple>[2]')
    # (b) a context is recorded only when the stack top is among the candidates
    # names that stand for the stack top
    tops = {'stack[-1]'}
    for n in ast.walk(loop):
        if isinstance(n, ast.Assign) and isinstance(n.targets[0], ast.Name) and norm(n.value).replace(' ', '') in ('stack[-1]', 'stack[-1]ifstackelseNone'):
            tops.add(n.targets[0].id)
    stores = [n for n in ast.walk(loop) if isinstance(n, ast.Assign) and isinstance(n.targets[0], ast.Subscript) and norm(n.value).replace(' ', '') in tops
              and not norm(n.targets[0].value).startswith('stack')]
    stores += [n for n in ast.walk(loop) if isinstance(n, ast.Expr) and isinstance(n.value, ast.Call) and isinstance(n.value.func, ast.Attribute) and n.value.func.attr == 'append'
               and n.value.args and norm(n.value.args[0]).replace(' ', '') in tops and norm(n.value.func.value) != 'stack']
    for st in stores:
        fx = {(f.replace(' ', ''), pol) for f, pol in facts_ex(ctx, fi, st)}
        elig = any((f.startswith(f'{t_}notin') and not pol) or (f.startswith(f'{t_}in') and pol) for f, pol in fx for t_ in tops)
        nonempty = ('stack', True) in fx or ('notstack', False) in fx
        key = f'{fi.fq}: `{norm(st)[:40]}` records the stack top as the context'
        if elig and nonempty:
            rep.ok(key, fi.loc(st), 'stack not empty and its top a candidate')
        elif not elig:
            rep.violation(key, fi.loc(st), 'the stack top is recorded as the context of the triple without having been found among the candidates (source, or target of a relation): '
                          'a triple is attributed to a node that did not write it, instead of ending the simulation with "unknown"')
        else:
            rep.undecided(key, fi.loc(st), 'no test that the stack is not empty')
    if not stores:
        rep.undecided(f'{fi.fq}: the stack top is recorded as the context', fi.loc(loop), 'no store of stack[-1]')
    # (c') every round either records a context or leaves the loop: a round that ends without a store and goes on lets the simulation run past a mismatch
    if stores:
        cfg_c = CFG(fi.node)
        pm_c = ctx.repo.parent_map(fi.node)
        head_c = cfg_c.node_of(loop)
        snodes = {cfg_c.node_of(st) for st in stores}
        skip_c = cfg_c.path_avoiding([(head_c, 'T')], {head_c}, lambda nd: nd.id in snodes)
        if skip_c:
            rep.violation(f'{fi.fq}: a triple whose candidates do not include the stack top ends the simulation', fi.loc(stores[0]),
                          'a round of the loop can end without recording a context and the loop goes on (' + ' -> '.join(repr(cfg_c.nodes[x]) for x in skip_c[-3:])[:150] +
                          '): after the first triple the open node did not write, the stack no longer corresponds to the triples, yet later triples are given contexts from it - '
                          'for a graph without markers appears_inverted() then answers True for edges that were written forward, where the documented answer is unknown / False')
            return rep
    # (c) the mismatch ends the loop
    for n in ast.walk(loop):
        if isinstance(n, ast.If) and any(f'{t_}notin' in norm(n.test).replace(' ', '') for t_ in tops):
            key = f'{fi.fq}: a triple whose candidates do not include the stack top ends the simulation'
            body = n.body
            if len(body) == 1 and isinstance(body[0], (ast.Break, ast.Return)):
                rep.ok(key, fi.loc(n), norm(body[0]))
            elif len(body) == 1 and isinstance(body[0], (ast.Continue, ast.Pass)):
                rep.violation(key, fi.loc(body[0]), f'after the mismatch the loop goes on (`{norm(body[0])}`): the stack no longer corresponds to the triples, yet later triples are '
                              f'given contexts from it - guesses reported as facts, where the documented answer is unknown (None) from the mismatch on')
            else:
                rep.undecided(key, fi.loc(n), norm(body[0])[:40])
    return rep


# ---------------------------------------------------------------------------------------------
@rule('R133', 'configuration hands every marker of a triple on to the branch it becomes: the marker list of a datum is not filtered on the way')
def r133(ctx: Ctx) -> RuleReport:
    rep = RuleReport('R133', r133.title, floor=1)
    fi = ctx.repo.func(L, '_configure_node')
    unp = [n for n in walk_local(fi.node) if isinstance(n, ast.Assign) and isinstance(n.targets[0], ast.Tuple) and len(n.targets[0].elts) == 3
           and isinstance(n.value, ast.Name) and all(isinstance(e, ast.Name) for e in n.targets[0].elts) and 'datum' in n.value.id]
    if len(unp) != 1:
        rep.undecided(f'{fi.fq}: `triple, push, epis = datum`', fi.loc(), f'{len(unp)} such statements')
        return rep
    E_ = unp[0].targets[0].elts[2].id
    key = f'{fi.fq}: `{E_}` reaches the branch unchanged'
    rebinds = [n for n in walk_local(fi.node) if n is not unp[0] and ((isinstance(n, ast.Assign) and any(isinstance(x, ast.Name) and x.id == E_ for t in n.targets for x in ast.walk(t)))
                                                                      or (isinstance(n, ast.AugAssign) and isinstance(n.target, ast.Name) and n.target.id == E_))]
    muts = [n for n in walk_local(fi.node) if isinstance(n, ast.Call) and isinstance(n.func, ast.Attribute) and norm(n.func.value) == E_
            and n.func.attr in ('remove', 'pop', 'clear', '__delitem__')] + \
        [n for n in walk_local(fi.node) if isinstance(n, ast.Delete) and any(isinstance(t, ast.Subscript) and norm(t.value) == E_ for t in n.targets)]
    used = [n for n in walk_local(fi.node) if isinstance(n, ast.Call) and isinstance(n.func, ast.Attribute) and n.func.attr in ('append', 'insert') and n.args
            and isinstance(n.args[-1], ast.Tuple) and any(isinstance(x, ast.Name) and x.id == E_ for x in n.args[-1].elts)]
    if not used:
        rep.undecided(key, fi.loc(), f'no branch tuple that contains `{E_}` is appended')
        return rep
    for n in rebinds + muts:
        v = getattr(n, 'value', None)
        drops = isinstance(v, (ast.ListComp, ast.GeneratorExp)) and any(g.ifs for g in v.generators) or isinstance(v, ast.Subscript) or n in muts or \
            (isinstance(v, ast.Call) and norm(v.func) in ('list', 'tuple') and v.args and isinstance(v.args[0], ast.Call) and norm(v.args[0].func) in ('filter', 'filterfalse', 'itertools.filterfalse'))
        if drops:
            rep.violation(key, fi.loc(n), f'`{norm(n)[:70]}` removes markers from the list before the branch is built: alignments (or other markers) that the text wrote on this '
                          f'relation are missing from the tree, so decode followed by encode does not reproduce the text')
        else:
            rep.undecided(key, fi.loc(n), f'`{E_}` is re-bound: {norm(n)[:60]}')
    if not rebinds and not muts:
        rep.ok(key, fi.loc(used[0]), norm(used[0])[:60])
    return rep


# ---------------------------------------------------------------------------------------------
@rule('R134', 'writing the markers onto a branch leaves a target without markers as it is: a missing target (None) is not turned into text')
def r134(ctx: Ctx) -> RuleReport:
    rep = RuleReport('R134', r134.title, floor=1)
    fi = ctx.repo.func(L, '_process_epigraph')
    loops = [n for n in walk_local(fi.node) if isinstance(n, ast.For) and isinstance(n.target, (ast.Tuple,))]
    tname = None
    for lp in loops:
        for x in ast.walk(lp.target):
            if isinstance(x, ast.Tuple) and len(x.elts) == 3 and all(isinstance(e, ast.Name) for e in x.elts):
                tname, ename, outer = x.elts[1].id, x.elts[2].id, lp
    if tname is None:
        rep.undecided(f'{fi.fq}: loop over (role, target, markers)', fi.loc(), 'not found')
        return rep
    pm = ctx.repo.parent_map(fi.node)
    rebinds = [n for n in ast.walk(outer) if isinstance(n, ast.Assign) and any(isinstance(t, ast.Name) and t.id == tname for t in n.targets)]
    n_sites = 0
    for n in rebinds:
        v = n.value
        textual = isinstance(v, ast.JoinedStr) or (isinstance(v, ast.Call) and norm(v.func) in ('str', 'format', 'repr')) or \
            (isinstance(v, ast.BinOp) and isinstance(v.op, ast.Add)) or (isinstance(v, ast.Call) and isinstance(v.func, ast.Attribute) and v.func.attr in ('format', 'join'))
        if not textual or not any(isinstance(x, ast.Name) and x.id == tname for x in ast.walk(v)):
            continue
        n_sites += 1
        key = f'{fi.fq}: `{norm(n)[:60]}` only runs for a target that carries a marker'
        in_marker_loop = any(isinstance(a, ast.For) and norm(a.iter) == ename for a in _ancestors(pm, n))
        from ..resolve import facts_ex
        fx = {(f.replace(' ', ''), pol) for f, pol in facts_ex(ctx, fi, n)}
        not_none = (f'{tname}isNone', False) in fx or (f'{tname}isnotNone', True) in fx
        if in_marker_loop or not_none:
            rep.ok(key, fi.loc(n), 'inside the loop over the markers' if in_marker_loop else 'None excluded')
        else:
            rep.violation(key, fi.loc(n), f'every atomic target is formatted into a string here, marker or not: a missing target (None, as in "(a :ARG0 )") becomes the text "None" - '
                          f'the encoded graph says ":ARG0 None" and decodes with a symbol where there was no value')
    if not n_sites:
        rep.ok(f'{fi.fq}: the target is never re-formatted', fi.loc())
    return rep


# ---------------------------------------------------------------------------------------------
@rule('R136', 'rearrange reaches every nested node: no exit of _rearrange comes before the loop that recurses into the branches')
def r136(ctx: Ctx) -> RuleReport:
    rep = RuleReport('R136', r136.title, floor=1)
    fi = ctx.repo.func(L, '_rearrange')
    cfg = CFG(fi.node)
    rec_loops = []
    for n in walk_local(fi.node):
        if isinstance(n, (ast.For, ast.While)) and any(isinstance(c, ast.Call) and norm(c.func) == fi.name for c in ast.walk(n)):
            rec_loops.append(n)
    key = f'{fi.fq}: every path through the function passes the loop that recurses into nested nodes'
    if not rec_loops:
        recs = [c for c in walk_local(fi.node) if isinstance(c, ast.Call) and norm(c.func) == fi.name]
        rep.add(key, fi.loc(), 'undecided' if recs else 'violation', 'the recursion is not inside a loop over the branches' if recs else
                '_rearrange never calls itself: only the top node is rearranged')
        return rep
    heads = {cfg.node_of(lp) for lp in rec_loops}
    path = cfg.path_avoiding([(cfg.entry, None)], {cfg.exit}, lambda nd: nd.id in heads)
    if path:
        conds = [norm(cfg.nodes[x].ast)[:50] for x in path if cfg.nodes[x].kind == 'cond'][-3:]
        rep.violation(key, fi.loc(rec_loops[0]), f'the function can return before that loop (through {conds}): for such a node nothing below it is rearranged - its nested nodes keep '
                      f'their old branch order although the key asks for another one')
    else:
        rep.ok(key, fi.loc(rec_loops[0]))
    return rep


# ---------------------------------------------------------------------------------------------
MODEL_ROLE_PREDICATES = ('is_role_inverted', 'invert_role', 'has_role', 'canonicalize_role', 'is_role_reifiable')


def _branch_role_names(fi: FuncInfo, loop_or_gen) -> Set[str]:
    """the name bound to the ROLE of a tree branch by `for role, target in <branches>` / `for path, (role, target) in t.walk()`"""
    it, tg = loop_or_gen.iter, loop_or_gen.target
    if isinstance(it, ast.Call) and isinstance(it.func, ast.Attribute) and it.func.attr == 'walk' and not it.args:
        # (path, branch)
        if isinstance(tg, ast.Tuple) and len(tg.elts) == 2 and isinstance(tg.elts[1], ast.Tuple) and len(tg.elts[1].elts) == 2 and isinstance(tg.elts[1].elts[0], ast.Name):
            return {tg.elts[1].elts[0].id}
        return set()
    branches = set()
    for n in walk_local(fi.node):
        if isinstance(n, ast.Assign) and isinstance(n.targets[0], ast.Tuple) and len(n.targets[0].elts) == 2 and isinstance(n.value, ast.Name) and n.value.id in fi.params \
                and isinstance(n.targets[0].elts[1], ast.Name):
            branches.add(n.targets[0].elts[1].id)                 # var, edges = node
    if ((isinstance(it, ast.Name) and it.id in branches) or (isinstance(it, ast.Subscript) and isinstance(it.value, ast.Name) and it.value.id in fi.params
                                                               and try_fold(it.slice) == (True, 1))) \
            and isinstance(tg, ast.Tuple) and len(tg.elts) == 2 and isinstance(tg.elts[0], ast.Name):
        return {tg.elts[0].id}
    return set()


def _splits_at_tilde(h: FuncInfo) -> bool:
    """a helper that cuts its argument at the first "~": partition/split('~'), or find('~') with slices up to / from the position found"""
    p0 = h.positional[0] if h.positional else None
    for n in walk_local(h.node):
        if isinstance(n, ast.Call) and isinstance(n.func, ast.Attribute) and n.func.attr in ('partition', 'split', 'find', 'index') and norm(n.func.value) == p0 \
                and n.args and try_fold(n.args[0]) == (True, '~'):
            if n.func.attr in ('partition', 'split'):
                return True
            pos = [x.targets[0].id for x in walk_local(h.node) if isinstance(x, ast.Assign) and x.value is n and isinstance(x.targets[0], ast.Name)]
            rets = [x for x in walk_local(h.node) if isinstance(x, ast.Return) and isinstance(x.value, ast.Tuple) and x.value.elts]
            if pos and rets and any(isinstance(r_.value.elts[0], ast.Subscript) and isinstance(r_.value.elts[0].slice, ast.Slice) and r_.value.elts[0].slice.lower is None
                                    and norm(r_.value.elts[0].slice.upper) == pos[0] and norm(r_.value.elts[0].value) == p0 for r_ in rets):
                return True
    return False


@rule('R138', 'a role read from a tree branch has its alignment suffix split off before the model is asked about it (":ARG1-of~e.3" does not END in -of)')
def r138(ctx: Ctx) -> RuleReport:
    from ..cfg import reaching_defs
    rep = RuleReport('R138', r138.title, floor=2)
    cache: Dict[str, tuple] = {}

    def flow(fi: FuncInfo):
        if fi.fq not in cache:
            cfg = CFG(fi.node)
            cache[fi.fq] = (cfg, reaching_defs(cfg, fi.params), ctx.repo.parent_map(fi.node))
        return cache[fi.fq]

    def status(fi: FuncInfo, r: str, at: ast.AST, depth: int = 0):
        """('raw', evidence) | ('stripped', evidence) | None for the name r read at the expression `at` of fi"""
        cfg, rd, pm = flow(fi)
        try:
            nid = owner_node(cfg, pm, at)
        except AnalysisError:
            return None
        defs = rd.get(nid, {}).get(r, frozenset())
        raw, stripped, via_param = [], [], []
        for d in defs:
            nd = cfg.nodes[d]
            if nd.kind == 'for' and r in _branch_role_names(fi, nd.ast):
                raw.append(nd)
            elif nd.kind == 'stmt' and isinstance(nd.ast, ast.Assign) and isinstance(nd.ast.value, ast.Call) and (
                    norm(nd.ast.value.func) == '_process_role' or (isinstance(nd.ast.value.func, ast.Attribute) and nd.ast.value.func.attr in ('partition', 'split', 'rpartition')
                                                                    and nd.ast.value.args and try_fold(nd.ast.value.args[0]) == (True, '~'))):
                stripped.append(nd)
            elif nd.kind == 'stmt' and isinstance(nd.ast, ast.Assign) and isinstance(nd.ast.value, ast.Call) and isinstance(nd.ast.value.func, ast.Name) \
                    and nd.ast.value.func.id in fi.module.functions and _splits_at_tilde(fi.module.functions[nd.ast.value.func.id]) \
                    and isinstance(nd.ast.targets[0], ast.Tuple) and nd.ast.targets[0].elts and norm(nd.ast.targets[0].elts[0]) == r:
                stripped.append(nd)             # name, alignment = _split_role_alignment(role)
            elif nd.kind == 'stmt' and isinstance(nd.ast, ast.Assign) and isinstance(nd.ast.targets[0], ast.Tuple) and len(nd.ast.targets[0].elts) == 3 \
                    and isinstance(nd.ast.value, ast.Name) and nd.ast.value.id in fi.positional and norm(nd.ast.targets[0].elts[1]) == r:
                via_param.append(nd.ast.value.id)              # _, role, target = triple   (triple is a parameter)
        if raw:
            # a role that has been tested to contain no "~" needs no stripping: `elif '~' in role: role, _, aln = role.partition('~')`
            tilde_conds = {nd.id for nd in cfg.nodes if nd.kind == 'cond' and norm(nd.ast) in (f"'~' in {r}", f"'~' not in {r}")}
            strip_nodes = {nd.id for nd in cfg.nodes if nd.kind == 'stmt' and isinstance(nd.ast, ast.Assign) and r in assigned_names(nd.ast)}
            if tilde_conds and all(cfg.path_avoiding([(rn.id, 'T')], {nid}, lambda nd: nd.id in tilde_conds or nd.id in strip_nodes) is None for rn in raw):
                return ('stripped', f'{r} is split at "~" whenever it contains one')
            return ('raw', f'bound by `{norm(raw[0].ast).splitlines()[0][:50]}`')
        if stripped and len(stripped) == len(defs):
            return ('stripped', f'{r} comes from {norm(stripped[0].ast)[:50]}')
        if via_param and len(via_param) == len(defs) and depth < 2:
            # the triple is built by the callers: (var, role, target) with their own role
            outs = []
            for cfi, call in ctx.cg.callers.get(fi.fq, []):
                idx = fi.positional.index(via_param[0])
                a = call.args[idx] if idx < len(call.args) else next((k.value for k in call.keywords if k.arg == via_param[0]), None)
                if isinstance(a, ast.Name):
                    vals = [v_ for v_ in ctx.cg.local_assigns(cfi).get(a.id, []) if isinstance(v_, ast.AST)]
                    a = vals[0] if len(vals) == 1 else a
                if isinstance(a, ast.Tuple) and len(a.elts) == 3 and isinstance(a.elts[1], ast.Name):
                    outs.append(status(cfi, a.elts[1].id, call, depth + 1))
                else:
                    outs.append(None)
            if outs and all(o is not None for o in outs):
                bad = [o for o in outs if o[0] == 'raw']
                return bad[0] if bad else ('stripped', f'in every caller: {outs[0][1]}')
        return None
    for mod in ('penman.layout', 'penman.transform', 'penman.tree', 'penman._format'):
        m = ctx.repo.module(mod)
        for fi in [f for f in ctx.repo.all_functions() if f.module is m]:
            calls = [c for c in walk_local(fi.node) if isinstance(c, ast.Call) and isinstance(c.func, ast.Attribute) and c.func.attr in MODEL_ROLE_PREDICATES
                     and len(c.args) >= 1 and isinstance(c.args[0], ast.Name)]
            if not calls:
                continue
            pm = ctx.repo.parent_map(fi.node)
            for c in calls:
                r = c.args[0].id
                key = f'{fi.fq}: {norm(c)[:50]} is asked about a role without its alignment suffix'
                # inside a comprehension over the branches?
                comp = None
                x = c
                while id(x) in pm and not isinstance(x, ast.stmt):
                    x = pm[id(x)]
                    if isinstance(x, (ast.GeneratorExp, ast.ListComp, ast.SetComp, ast.DictComp)):
                        for g in x.generators:
                            if r in _branch_role_names(fi, g):
                                comp = x
                if comp is not None:
                    rep.violation(key, fi.loc(c), f'`{r}` is the role of a branch exactly as the tree holds it (`{norm(comp)[:60]}`): a role alignment is still attached, so for '
                                  f'":ARG1-of~e.3" the model answers for a role that does not end in -of. The inverted edge is not recognised: it is not deinverted and is '
                                  f'reported as an attribute ("(a / alpha :ARG0 (b / beta) :ARG1-of~e.3 b)" keeps the triple (a :ARG1-of b))')
                    continue
                st = status(fi, r, c)
                if st is None:
                    continue
                if st[0] == 'raw':
                    rep.violation(key, fi.loc(c), f'`{r}` can still be the role exactly as the branch holds it ({st[1]}, not yet passed through '
                                  f'_process_role / partition("~")): a role alignment is still attached, so for ":ARG1-of~e.3" the model answers for a role that does not end in -of. '
                                  f'The inverted edge is not recognised: it is not deinverted and is reported as an attribute')
                else:
                    rep.ok(key, fi.loc(c), st[1])
    return rep


# ---------------------------------------------------------------------------------------------
@rule('R146', '_preconfigure turns a queued triple round exactly when the Push it honours names the SOURCE of the triple (the graph decides, not a note on the marker)')
def r146(ctx: Ctx) -> RuleReport:
    from ..resolve import facts_ex, expand
    rep = RuleReport('R146', r146.title, floor=1)
    fi = ctx.repo.func(L, '_preconfigure')
    loop = next((n for n in walk_local(fi.node) if isinstance(n, ast.For) and norm(n.iter).endswith('.triples')), None)
    src_names = set()
    for n in walk_local(fi.node):
        if isinstance(n, ast.Assign) and isinstance(n.targets[0], ast.Tuple) and len(n.targets[0].elts) == 3 and loop is not None and norm(n.value) == norm(loop.target):
            src_names.add(norm(n.targets[0].elts[0]))
    if loop is not None and isinstance(loop.target, ast.Tuple) and len(loop.target.elts) == 3:
        src_names.add(norm(loop.target.elts[0]))
    if loop is not None and isinstance(loop.target, ast.Name):
        src_names.add(f'{loop.target.id}[0]')
    calls = [c for c in walk_local(fi.node) if isinstance(c, ast.Call) and isinstance(c.func, ast.Attribute) and c.func.attr == 'invert']
    key = f'{fi.fq}: the triple is inverted exactly when <pushed variable> == <source of the triple>'
    if not calls:
        rep.undecided(key, fi.loc(), 'no model.invert(...) call')
        return rep
    for c in calls:
        fx = facts_ex(ctx, fi, c)
        good = bad = None
        for f, pol in fx:
            try:
                e = ast.parse(f, mode='eval').body
            except SyntaxError:
                continue
            if isinstance(e, ast.Compare) and len(e.ops) == 1 and isinstance(e.ops[0], (ast.Eq, ast.NotEq)):
                a, b = norm(e.left), norm(e.comparators[0])
                if (a in src_names and b.endswith('.variable')) or (b in src_names and a.endswith('.variable')):
                    if (isinstance(e.ops[0], ast.Eq) and pol) or (isinstance(e.ops[0], ast.NotEq) and not pol):
                        good = f
                    else:
                        bad = f
        if good:
            # ... and nothing else decides: every other fact at the call is one of the validity tests that precede it
            extra = [f for f, pol in fx if pol and '.' in f and not f.startswith('isinstance(') and f != good and any(x in f for x in ('.inverted', '.mode', '.flag', '.kind'))]
            if extra:
                rep.undecided(key, fi.loc(c), f'also under {extra[:2]}')
            else:
                rep.ok(key, fi.loc(c), good)
        elif bad:
            rep.violation(key, fi.loc(c), f'the triple is inverted when `{bad}` does NOT hold: a Push on the target turns the triple round, a Push on the source does not')
        else:
            attr = [f for f, pol in fx if pol and '.' in f and not f.startswith('isinstance(') and '(' not in f and ' ' not in f.strip()]
            derived = [f for f, pol in fx if pol and f.isidentifier()]
            if not (attr or derived):
                rep.undecided(key, fi.loc(c), f'guards: {sorted(f for f, pol in fx if pol)[:4]}')
                continue
            why = (attr or derived)[0]
            rep.violation(key, fi.loc(c), f'whether the triple is turned round is decided by `{why}`, not by comparing the pushed variable with the source of the triple: what a marker '
                          f'says about the spelling of a role is not what the model did with it - under the no-op model ":ARG1-of (b / beta)" is not deinverted when it is read, '
                          f'but is turned round when it is written, so the node is closed at the wrong place and encode(decode(s)) moves it')
    return rep
