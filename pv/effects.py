"""E4 - points-to and mutation effects (Andersen-style inclusion analysis over the whole package).

Abstract objects: one per allocation site of a mutable value (keyed by full source span, node type
and constructor context), typed access-path objects for the parameters of the entry points, one
object per module-level mutable.  Names are flow-sensitive through reaching definitions; fields are
flow-insensitive.  Constructors are analysed per call site.  deepcopy yields clones that share
nothing; shallow copies share contents.  Mutation events are collected after the fixpoint.
"""
from __future__ import annotations

import ast
import os
import time
from typing import Dict, FrozenSet, Iterable, List, Optional, Set, Tuple

from .callgraph import CallGraph
from .cfg import assigned_names, owner_node
from .src import AnalysisError, ClassInfo, FuncInfo, Module, Repo, dotted, norm, walk_local
from .tyeng import TypeEngine, T, has

LISTLIKE = ('list', 'dict', 'set', 'summary', 'view', 'iter')
_EMPTY: frozenset = frozenset()
LIST_MUTATORS = {'append', 'extend', 'insert', 'pop', 'remove', 'clear', 'sort', 'reverse'}
DICT_MUTATORS = {'update', 'pop', 'popitem', 'clear', 'setdefault', '__setitem__', '__delitem__'}
SET_MUTATORS = {'add', 'discard', 'remove', 'pop', 'clear', 'update', 'difference_update', 'intersection_update',
                'symmetric_difference_update'}
ALL_MUTATORS = LIST_MUTATORS | DICT_MUTATORS | SET_MUTATORS


PRIMITIVE_ATOMS = {'str', 'int', 'float', 'bool', 'none', 'Var', 'Role', 'Const', 'Atom', 'Triple', 'func', 'cls', 'ext', 'method'}


def carries_no_object(t: T) -> bool:
    """True when every value of this (non-empty) type is immutable data without fields of interest."""
    return bool(t) and all(a[0] in PRIMITIVE_ATOMS for a in t)


class Obj:
    __slots__ = ('oid', 'kind', 'label', 'fields', 'origin', 'deep', 'site', 'is_param', 'is_global', 'where', 'actx')

    def __init__(self, oid: int, kind: str, label: str, where: str = ''):
        self.oid = oid
        self.kind = kind                 # list dict set tuple inst:<fq> view iter summary
        self.label = label
        self.fields: Dict[str, Set['Obj']] = {}
        self.origin: Optional['Obj'] = None     # for clones
        self.deep = False
        self.site = None
        self.is_param: Optional[Tuple[str, str]] = None     # (entry fq, parameter)
        self.is_global: Optional[str] = None
        self.where = where
        self.actx = None                 # constructor context the object was allocated in

    def __repr__(self):
        return f'<{self.kind} {self.label}>'

    def __hash__(self):
        return self.oid

    def __eq__(self, o):
        return self is o


class Event:
    def __init__(self, fi: FuncInfo, ctx, node: ast.AST, kind: str, recv_src: str, receivers: Set[Obj]):
        self.fi = fi
        self.ctx = ctx
        self.node = node
        self.kind = kind
        self.recv_src = recv_src
        self.receivers = receivers

    def stmt_src(self, pm) -> str:
        n = self.node
        while not isinstance(n, ast.stmt) and id(n) in pm:
            n = pm[id(n)]
        return norm(n).splitlines()[0][:100]


class EffectsEngine:
    MAX_ROUNDS = 40
    MAX_OBJECTS = 60000
    MAX_SECONDS = 90
    _t0 = 0.0

    def __init__(self, repo: Repo, cg: CallGraph, types: TypeEngine, entries: Optional[List[dict]] = None):
        self.repo = repo
        self.cg = cg
        self.types = types
        self.objs: List[Obj] = []
        self.alloc: Dict[tuple, Obj] = {}
        self.defpts: Dict[tuple, Set[Obj]] = {}            # (func fq, ctx, name, def node) -> objects
        self.param_pts: Dict[tuple, Set[Obj]] = {}         # (func fq, ctx, param) -> objects
        self.ret_pts: Dict[tuple, Set[Obj]] = {}           # (func fq, ctx) -> objects
        self.global_pts: Dict[Tuple[str, str], Set[Obj]] = {}
        self.contexts: Dict[str, Set[object]] = {}         # func fq -> contexts seen
        self.funcs: Dict[str, FuncInfo] = {f.fq: f for f in repo.all_functions()}
        self.changed = False
        self.epoch = 0
        self.ctor_self: Dict[tuple, Obj] = {}
        self._getf_cache: Dict[tuple, tuple] = {}
        self.rounds = 0
        self.events: List[Event] = []
        self._collect = False
        self.entries = entries or []
        self.unmodelled: Set[str] = set()
        self._seed_entries()
        self._solve()

    # -- objects ---------------------------------------------------------------------------
    def new_obj(self, key: tuple, kind: str, label: str, where: str = '') -> Obj:
        if key not in self.alloc:
            if len(self.objs) >= self.MAX_OBJECTS or (self._t0 and time.time() - self._t0 > self.MAX_SECONDS):
                raise AnalysisError(f'points-to analysis exceeds its budget ({len(self.objs)} abstract objects, {time.time() - self._t0:.0f}s): '
                                    f'the program allocates in a pattern the object abstraction does not bound')
            o = Obj(len(self.objs), kind, label, where)
            self.objs.append(o)
            self.alloc[key] = o
            self.changed = True
            self.epoch += 1
        return self.alloc[key]

    def site_obj(self, fi: Optional[FuncInfo], ctx, node: ast.AST, kind: str, tag: str = '') -> Obj:
        key = ('site', fi.fq if fi else '<module>', ctx, type(node).__name__, node.lineno, node.col_offset,
               getattr(node, 'end_lineno', 0), getattr(node, 'end_col_offset', 0), kind, tag)
        where = f'{fi.module.relpath if fi else "?"}:{node.lineno}'
        o = self.new_obj(key, kind, f'{kind}@{where}{":" + tag if tag else ""}', where)
        o.actx = ctx
        return o

    def getf(self, o: Obj, f: str) -> Set[Obj]:
        if o.origin is None and o.kind != 'summary':
            return o.fields.get(f, _EMPTY)          # callers never mutate the result
        ck = (o.oid, f)
        hit = self._getf_cache.get(ck)
        if hit is not None and hit[0] == self.epoch:
            return hit[1]
        out = self._getf_uncached(o, f)
        self._getf_cache[ck] = (self.epoch, out)
        return out

    def _getf_uncached(self, o: Obj, f: str) -> Set[Obj]:
        out = set(o.fields.get(f, ()))
        if o.kind == 'summary':
            out.add(o)
        if o.origin is not None:
            src = self.getf(o.origin, f)
            if o.deep:
                for t in src:
                    out.add(self.clone(o.site, t, True))
            else:
                out |= src
        return out

    def addf(self, o: Obj, f: str, vals: Iterable[Obj]):
        s = o.fields.setdefault(f, set())
        for v in vals:
            if v not in s:
                s.add(v)
                self.changed = True
                self.epoch += 1

    def clone(self, site: tuple, o: Obj, deep: bool) -> Obj:
        # widening: a copy made at this site of something that is itself (a copy of ...) a copy made at this site is represented by
        # that earlier copy - otherwise `x = f(x)` in a loop allocates copy-of-copy-of-... without bound
        a, hops = o, 0
        while a is not None and hops < 64:
            if a.origin is not None and a.site == site and a.deep == deep:
                return a
            a = a.origin
            hops += 1
        key = ('clone', site, o.oid, deep)
        if key not in self.alloc:
            c = self.new_obj(key, o.kind, f'{"deepcopy" if deep else "copy"}@{site[-1]} of {o.label}', o.where)
            c.origin = o
            c.deep = deep
            c.site = site
        return self.alloc[key]

    def elems(self, objs: Iterable[Obj]) -> Set[Obj]:
        """Objects obtained by iterating / indexing (unknown index) the given objects."""
        out: Set[Obj] = set()
        for o in objs:
            if o.kind in ('list', 'set', 'view', 'iter', 'summary'):
                out |= self.getf(o, 'elem')
            elif o.kind == 'dict':
                out |= self.getf(o, 'key')
            elif o.kind == 'tuple':
                for f in list(o.fields) + (list(o.origin.fields) if o.origin is not None else []):
                    out |= self.getf(o, f)
        return out

    def index(self, objs: Iterable[Obj], idx: Optional[int]) -> Set[Obj]:
        out: Set[Obj] = set()
        for o in objs:
            if o.kind == 'tuple':
                if idx is not None:
                    fs = self._tuple_fields(o)
                    n = len([f for f in fs if f.isdigit()])
                    i = idx if idx >= 0 else n + idx
                    out |= self.getf(o, str(i))
                    out |= self.getf(o, 'elem')
                else:
                    out |= self.elems([o])
            elif o.kind in ('list', 'view', 'iter', 'summary', 'set'):
                out |= self.getf(o, 'elem')
            elif o.kind == 'dict':
                out |= self.getf(o, 'val')
        return out

    def _tuple_fields(self, o: Obj) -> Set[str]:
        fs = set(o.fields)
        if o.origin is not None:
            fs |= self._tuple_fields(o.origin)
        return fs

    # -- entry parameter expansion -----------------------------------------------------------
    def _seed_entries(self):
        for e in self.entries:
            fi = self.funcs.get(e['func'])
            if fi is None:
                raise AnalysisError(f'pure_api.json names a function that does not exist: {e["func"]}')
            for p in fi.params:
                t = self.types.param_type(fi, p)
                if p == 'self' and fi.cls is not None:
                    t = frozenset([('inst', fi.cls.fq)])
                if not t or t == frozenset([('any',)]):
                    # un-annotated: classes the body tests the parameter against with isinstance
                    narrowed = set()
                    for n in walk_local(fi.node):
                        if isinstance(n, ast.Call) and isinstance(n.func, ast.Name) and n.func.id == 'isinstance' and len(n.args) == 2 \
                                and isinstance(n.args[0], ast.Name) and n.args[0].id == p:
                            cls = n.args[1]
                            for x in ([cls] + list(cls.elts) if isinstance(cls, ast.Tuple) else [cls]):
                                if isinstance(x, ast.Name):
                                    r = self.repo.resolve_name(fi.module, x.id)
                                    if r[0] == 'class':
                                        narrowed.add(('inst', r[2].fq))
                    if narrowed:
                        t = frozenset(narrowed)
                    elif not t:
                        a = fi.node.args
                        plain = [x.arg for x in a.posonlyargs + a.args + a.kwonlyargs]
                        t = frozenset([('any',)]) if p in plain else frozenset()
                objs = self.expand(t, (fi.fq, p), p, 0, {})
                self.param_pts.setdefault((fi.fq, None, p), set()).update(objs)

    def expand(self, t: T, who: Tuple[str, str], path: str, depth: int, memo: dict) -> Set[Obj]:
        out: Set[Obj] = set()
        for a in t:
            k = a[0]
            mk = (k, a[1] if k in ('inst',) else None, path if k not in ('Node', 'Branch') else k)
            if k in ('Node', 'Branch') and (who, k) in memo:
                out.add(memo[(who, k)])
                continue
            if k == 'inst':
                cfq = a[1]
                cname = cfq.split(':')[1]
                if cname not in ('Graph', 'Tree', 'Model', 'NoOpModel', 'PENMANCodec'):
                    continue
                o = self._pobj(who, path, f'inst:{cfq}')
                out.add(o)
                if depth > 6:
                    continue
                if cname == 'Graph':
                    tr = self._pobj(who, path + '.triples', 'list')
                    ep = self._pobj(who, path + '.epidata', 'dict')
                    epl = self._pobj(who, path + '.epidata[*]', 'list')
                    md = self._pobj(who, path + '.metadata', 'dict')
                    self.addf(o, 'triples', [tr])
                    self.addf(o, 'epidata', [ep])
                    self.addf(ep, 'val', [epl])
                    self.addf(o, 'metadata', [md])
                elif cname == 'Tree':
                    md = self._pobj(who, path + '.metadata', 'dict')
                    self.addf(o, 'metadata', [md])
                    self.addf(o, 'node', self.expand(frozenset([('Node',)]), who, path + '.node', depth + 1, memo))
                elif cname in ('Model', 'NoOpModel'):
                    for f in ('roles', 'normalizations'):
                        self.addf(o, f, [self._pobj(who, f'{path}.{f}', 'dict')])
                    for f in ('reifications', 'dereifications'):
                        d = self._pobj(who, f'{path}.{f}', 'dict')
                        self.addf(o, f, [d])
                        self.addf(d, 'val', [self._pobj(who, f'{path}.{f}[*]', 'list')])
                elif cname == 'PENMANCodec':
                    self.addf(o, 'model', self.expand(frozenset([('inst', 'penman.model:Model')]), who, path + '.model', depth + 1, memo))
            elif k == 'Node':
                n = self._pobj(who, path + '<node>', 'tuple')
                memo[(who, 'Node')] = n
                bl = self._pobj(who, path + '<node>.branches', 'list')
                br = self._pobj(who, path + '<node>.branches[*]', 'tuple')
                memo[(who, 'Branch')] = br
                self.addf(n, '1', [bl])
                self.addf(bl, 'elem', [br])
                self.addf(br, '1', [n])
                out.add(n)
            elif k == 'Branch':
                self.expand(frozenset([('Node',)]), who, path, depth, memo)
                out.add(memo[(who, 'Branch')])
            elif k in ('list', 'set', 'iter'):
                o = self._pobj(who, path, 'list' if k != 'set' else 'set')
                out.add(o)
                if depth < 6:
                    self.addf(o, 'elem', self.expand(a[1], who, path + '[*]', depth + 1, memo))
            elif k == 'dict':
                o = self._pobj(who, path, 'dict')
                out.add(o)
                if depth < 6:
                    self.addf(o, 'val', self.expand(a[2], who, path + '[*]', depth + 1, memo))
            elif k == 'tuple':
                o = self._pobj(who, path, 'tuple')
                any_sub = False
                for i, x in enumerate(a[1]):
                    sub = self.expand(x, who, f'{path}[{i}]', depth + 1, memo) if depth < 6 else set()
                    if sub:
                        any_sub = True
                        self.addf(o, str(i), sub)
                if any_sub:
                    out.add(o)
            elif k == 'any':
                o = self._pobj(who, path, 'summary')
                out.add(o)
            # Var/Role/Const/Atom/Triple/str/int/... carry no object
        return out

    def _pobj(self, who: Tuple[str, str], path: str, kind: str) -> Obj:
        o = self.new_obj(('param', who, path, kind), kind, f'P<{who[0].split(":")[1]}:{path}>')
        o.is_param = who
        return o

    # -- fixpoint --------------------------------------------------------------------------
    def _solve(self):
        for fq in self.funcs:
            self.contexts.setdefault(fq, set()).add(None)
        self._t0 = time.time()
        for rnd in range(self.MAX_ROUNDS):
            self.rounds = rnd + 1
            self.changed = False
            if time.time() - self._t0 > self.MAX_SECONDS:
                raise AnalysisError(f'points-to analysis exceeds its time budget after {rnd} rounds ({len(self.objs)} abstract objects)')
            if os.environ.get('PV_E4_TRACE'):
                print(f'E4 round {rnd}: objs={len(self.objs)} ctxs={sum(len(v) for v in self.contexts.values())} t={time.time() - self._t0:.1f}', flush=True)
            self._eval_modules()
            for fq, fi in self.funcs.items():
                for ctx in list(self.contexts.get(fq, {None})):
                    FuncEval(self, fi, ctx).run()
            if not self.changed:
                break
        else:
            raise AnalysisError(f'points-to analysis did not converge in {self.MAX_ROUNDS} rounds')
        # final pass: collect mutation events
        self._collect = True
        self.events = []
        for fq, fi in self.funcs.items():
            for ctx in list(self.contexts.get(fq, {None})):
                FuncEval(self, fi, ctx).run()
        self._collect = False

    def _eval_modules(self):
        for m in self.repo.modules.values():
            ev = ModuleEval(self, m)
            for name, value in m.constants.items():
                pts = ev.pts(value)
                if pts:
                    cur = self.global_pts.setdefault((m.name, name), set())
                    for o in pts:
                        if o not in cur:
                            cur.add(o)
                            self.changed = True
                        if o.is_global is None:
                            o.is_global = f'{m.name}.{name}'

    def global_reachable(self) -> Dict[Obj, str]:
        out: Dict[Obj, str] = {}
        stack = []
        for (m, n), s in self.global_pts.items():
            for o in s:
                stack.append((o, f'{m}.{n}'))
        while stack:
            o, lab = stack.pop()
            if o in out:
                continue
            out[o] = lab
            fs = set(o.fields)
            for f in fs:
                for t in self.getf(o, f):
                    if t not in out:
                        stack.append((t, lab + '.' + f))
        return out

    def param_reachable(self) -> Dict[Obj, Tuple[str, str]]:
        return {o: o.is_param for o in self.objs if o.is_param is not None}

    def stats(self) -> dict:
        return {'objects': len(self.objs), 'rounds': self.rounds, 'mutation_events': len(self.events),
                'events_with_receivers': sum(1 for e in self.events if e.receivers),
                'function_contexts': sum(len(v) for v in self.contexts.values()),
                'unmodelled_calls': sorted(self.unmodelled)[:30]}


class BaseEval:
    """Expression evaluation shared by function bodies and module-level constants."""

    def __init__(self, eng: EffectsEngine, module: Module, fi: Optional[FuncInfo], ctx):
        self.eng = eng
        self.module = module
        self.fi = fi
        self.ctx = ctx

    # subclasses provide name lookup
    def name_pts(self, name: str, at: ast.AST, env: dict) -> Set[Obj]:
        raise NotImplementedError

    def type_of(self, e: ast.AST) -> T:
        return frozenset()

    def event(self, node: ast.AST, kind: str, recv: ast.AST, receivers: Set[Obj], kinds: Tuple[str, ...]):
        pass

    def pts(self, e: ast.AST, env: Optional[dict] = None) -> Set[Obj]:
        eng = self.eng
        env = env if env is not None else {}
        if e is None or isinstance(e, (ast.Constant, ast.JoinedStr, ast.Compare, ast.Lambda, ast.FormattedValue)):
            if isinstance(e, ast.Compare):
                self.pts(e.left, env)
                for c in e.comparators:
                    self.pts(c, env)
            return set()
        if isinstance(e, ast.Name):
            if e.id in env:
                return set(env[e.id])
            return self.name_pts(e.id, e, env)
        if isinstance(e, ast.Tuple):
            o = eng.site_obj(self.fi, self.ctx, e, 'tuple')
            for i, x in enumerate(e.elts):
                if isinstance(x, ast.Starred):
                    eng.addf(o, 'elem', eng.elems(self.pts(x.value, env)))
                else:
                    eng.addf(o, str(i), self.pts(x, env))
            return {o}
        if isinstance(e, (ast.List, ast.Set)):
            o = eng.site_obj(self.fi, self.ctx, e, 'list' if isinstance(e, ast.List) else 'set')
            for x in e.elts:
                if isinstance(x, ast.Starred):
                    eng.addf(o, 'elem', eng.elems(self.pts(x.value, env)))
                else:
                    eng.addf(o, 'elem', self.pts(x, env))
            return {o}
        if isinstance(e, ast.Dict):
            o = eng.site_obj(self.fi, self.ctx, e, 'dict')
            for k, v in zip(e.keys, e.values):
                if k is None:
                    for d in self.pts(v, env):
                        eng.addf(o, 'key', eng.getf(d, 'key'))
                        eng.addf(o, 'val', eng.getf(d, 'val'))
                else:
                    eng.addf(o, 'key', self.pts(k, env))
                    eng.addf(o, 'val', self.pts(v, env))
            return {o}
        if isinstance(e, (ast.ListComp, ast.SetComp, ast.GeneratorExp, ast.DictComp)):
            env2 = dict(env)
            for g in e.generators:
                it = self.pts(g.iter, env2)
                self.bind_env(g.target, eng.elems(it), env2)
                for c in g.ifs:
                    self.pts(c, env2)
            if isinstance(e, ast.DictComp):
                o = eng.site_obj(self.fi, self.ctx, e, 'dict')
                eng.addf(o, 'key', self.pts(e.key, env2))
                eng.addf(o, 'val', self.pts(e.value, env2))
            else:
                kind = {ast.ListComp: 'list', ast.SetComp: 'set', ast.GeneratorExp: 'iter'}[type(e)]
                o = eng.site_obj(self.fi, self.ctx, e, kind)
                eng.addf(o, 'elem', self.pts(e.elt, env2))
            return {o}
        if isinstance(e, ast.Attribute):
            base = self.pts(e.value, env)
            out: Set[Obj] = set()
            for o in base:
                if o.kind.startswith('inst') or o.kind == 'summary':
                    out |= eng.getf(o, e.attr)
            if not base and isinstance(e.value, ast.Name) and e.value.id not in env:
                r = eng.repo.resolve_name(self.module, e.value.id)
                if r[0] == 'module':
                    out |= eng.global_pts.get((r[1].name, e.attr), set())
                    r2 = eng.repo.resolve_qualified(f'{r[1].name}.{e.attr}')
                    if r2[0] == 'const':
                        out |= eng.global_pts.get((r2[1].name, r2[2]), set())
            return out
        if isinstance(e, ast.Subscript):
            base = self.pts(e.value, env)
            self.pts(e.slice, env) if not isinstance(e.slice, ast.Slice) else None
            if isinstance(e.slice, ast.Slice):
                out = set()
                for o in base:
                    if o.kind in ('list', 'tuple', 'summary', 'view', 'iter'):
                        c = eng.site_obj(self.fi, self.ctx, e, 'list' if o.kind != 'tuple' else 'tuple', 'slice')
                        eng.addf(c, 'elem', eng.elems([o]))
                        out.add(c)
                return out
            idx = None
            if isinstance(e.slice, ast.Constant) and isinstance(e.slice.value, int):
                idx = e.slice.value
            elif isinstance(e.slice, ast.UnaryOp) and isinstance(e.slice.op, ast.USub) and isinstance(e.slice.operand, ast.Constant):
                idx = -e.slice.operand.value
            return eng.index(base, idx)
        if isinstance(e, ast.Call):
            return self.call(e, env)
        if isinstance(e, ast.BinOp):
            l, r = self.pts(e.left, env), self.pts(e.right, env)
            if isinstance(e.op, (ast.Add, ast.Sub, ast.BitOr, ast.BitAnd, ast.BitXor)):
                # operator dispatch on Graph
                lt = self.type_of(e.left)
                if any(a == ('inst', 'penman.graph:Graph') for a in lt) and isinstance(e.op, (ast.BitOr, ast.Sub)):
                    m = '__or__' if isinstance(e.op, ast.BitOr) else '__sub__'
                    return self.call_method('penman.graph:Graph', m, l, [r], e)
                conts = [o for o in l | r if o.kind in ('list', 'set', 'tuple', 'summary')]
                et = self.type_of(e)
                if conts and (not et or any(a[0] in ('list', 'set', 'tuple', 'any') for a in et)):
                    kind = 'set' if any(o.kind == 'set' for o in conts) else ('tuple' if all(o.kind == 'tuple' for o in conts) else 'list')
                    c = eng.site_obj(self.fi, self.ctx, e, kind, 'binop')
                    eng.addf(c, 'elem', eng.elems(conts))
                    return {c}
            if isinstance(e.op, ast.Mult):
                conts = [o for o in l | r if o.kind in ('list',)]
                if conts:
                    c = eng.site_obj(self.fi, self.ctx, e, 'list', 'binop')
                    eng.addf(c, 'elem', eng.elems(conts))
                    return {c}
            return set()
        if isinstance(e, ast.BoolOp):
            out = set()
            for v in e.values:
                out |= self.pts(v, env)
            return out
        if isinstance(e, ast.IfExp):
            self.pts(e.test, env)
            # `x if is_atomic(x) else f(x)`: on the arm where x was tested to be an atom / a string / None it carries no object
            test, neg = e.test, False
            while isinstance(test, ast.UnaryOp) and isinstance(test.op, ast.Not):
                test, neg = test.operand, not neg
            atomic_arm = None
            tsrc = norm(test)
            for arm, when in ((e.body, True), (e.orelse, False)):
                if isinstance(arm, ast.Name) and tsrc in (f'is_atomic({arm.id})', f'tree.is_atomic({arm.id})', f'isinstance({arm.id}, str)', f'{arm.id} is None') \
                        and when != neg:
                    atomic_arm = arm
            b = set() if atomic_arm is e.body else self.pts(e.body, env)
            o = set() if atomic_arm is e.orelse else self.pts(e.orelse, env)
            return b | o
        if isinstance(e, ast.UnaryOp):
            self.pts(e.operand, env)
            return set()
        if isinstance(e, ast.Starred):
            return self.pts(e.value, env)
        if isinstance(e, ast.NamedExpr):
            return self.pts(e.value, env)
        if isinstance(e, ast.Yield):
            return self.pts(e.value, env) if e.value is not None else set()
        if isinstance(e, ast.YieldFrom):
            return self.pts(e.value, env)
        if isinstance(e, ast.Slice):
            return set()
        return set()

    def bind_env(self, target, objs: Set[Obj], env: dict):
        if isinstance(target, ast.Name):
            env[target.id] = set(env.get(target.id, set())) | objs
        elif isinstance(target, (ast.Tuple, ast.List)):
            for i, t in enumerate(target.elts):
                if isinstance(t, ast.Starred):
                    self.bind_env(t.value, self.eng.elems(objs), env)
                else:
                    self.bind_env(t, self.eng.index(objs, i), env)

    # -- calls -----------------------------------------------------------------------------
    def call(self, e: ast.Call, env: dict) -> Set[Obj]:
        eng = self.eng
        fn = e.func
        argp = [self.pts(a.value if isinstance(a, ast.Starred) else a, env) for a in e.args]
        kwp = {k.arg: self.pts(k.value, env) for k in e.keywords}
        # methods on container / instance receivers
        if isinstance(fn, ast.Attribute):
            recv = self.pts(fn.value, env)
            conts = {o for o in recv if o.kind in LISTLIKE or o.kind == 'tuple'}
            if conts or (recv and fn.attr in ALL_MUTATORS | {'get', 'items', 'values', 'keys', 'copy'}):
                r = self.container_method(e, fn.attr, recv, argp, env)
                if r is not None:
                    others = {o for o in recv if o.kind.startswith('inst')}
                    if not others:
                        return r
        targets = eng.cg.resolve_expr(fn, self.fi, self.module) if self.fi is not None else eng.cg.resolve_expr(fn, None, self.module)
        out: Set[Obj] = set()
        for t in targets:
            if t.kind == 'func':
                callee = t.func
                selfp = None
                if callee.is_method() and 'staticmethod' not in callee.decorators() and isinstance(fn, ast.Attribute):
                    is_cls = isinstance(fn.value, ast.Name) and eng.repo.resolve_name(self.module, fn.value.id)[0] == 'class' \
                        and fn.value.id not in env
                    if 'classmethod' in callee.decorators():
                        selfp = set()
                    elif not is_cls:
                        selfp = self.pts(fn.value, env)
                        if isinstance(fn.value, ast.Call) and isinstance(fn.value.func, ast.Name) and fn.value.func.id == 'super' \
                                and self.fi is not None:
                            selfp = self.name_pts(self.fi.positional[0], e, env) if self.fi.positional else set()
                out |= self.invoke(callee, None, selfp, argp, kwp, e)
            elif t.kind == 'class':
                out |= self.construct(t.cls, argp, kwp, e)
            elif t.kind == 'ext':
                out |= self.ext_call(t.name, e, argp, kwp, env)
            elif t.kind == 'method?':
                pass          # method of a value that carries no object (str, Token, ...)
            else:
                eng.unmodelled.add(f'{self.module.name}: {norm(fn)[:40]}')
        return out

    def construct(self, cls: ClassInfo, argp, kwp, e: ast.Call) -> Set[Obj]:
        eng = self.eng
        o = eng.site_obj(self.fi, self.ctx, e, f'inst:{cls.fq}')
        init = cls.find_method('__init__')
        if init is not None:
            site = ('ctor', self.fi.fq if self.fi else self.module.name, e.lineno, e.col_offset, getattr(e, 'end_col_offset', 0))
            eng.ctor_self[site] = o
            self.invoke(init, site, {o}, argp, kwp, e)
        else:
            # NamedTuple-like: positional fields by class annotations
            names = [b.target.id for b in cls.node.body if isinstance(b, ast.AnnAssign) and isinstance(b.target, ast.Name)]
            for n, p in zip(names, argp):
                eng.addf(o, n, p)
        return {o}

    def invoke(self, callee: FuncInfo, ctx, selfp, argp, kwp, e: ast.Call) -> Set[Obj]:
        eng = self.eng
        if ctx not in eng.contexts.setdefault(callee.fq, set()):
            eng.contexts[callee.fq].add(ctx)
            eng.changed = True
        pos = list(callee.positional)
        if selfp is not None and pos:
            self._flow_param(callee, ctx, pos[0], selfp)
            pos = pos[1:]
        va = callee.node.args.vararg
        for i, p in enumerate(argp):
            star = i < len(e.args) and isinstance(e.args[i], ast.Starred)
            if star:
                for q in pos[i:]:
                    self._flow_param(callee, ctx, q, eng.elems(p))
                break
            if i < len(pos):
                self._flow_param(callee, ctx, pos[i], p)
            elif va is not None:
                self._flow_param(callee, ctx, va.arg, p, as_elem=True)
        for k, p in kwp.items():
            if k is None:
                continue
            if k in callee.params:
                self._flow_param(callee, ctx, k, p)
        return set(eng.ret_pts.get((callee.fq, ctx), set()))

    def _flow_param(self, callee: FuncInfo, ctx, p: str, objs: Set[Obj], as_elem: bool = False):
        eng = self.eng
        if objs and not as_elem and carries_no_object(eng.types.param_type(callee, p)):
            return
        if as_elem:
            va = eng.new_obj(('vararg', callee.fq, ctx, p), 'list', f'*{p}@{callee.qualname}')
            eng.addf(va, 'elem', objs)
            objs = {va}
        cur = eng.param_pts.setdefault((callee.fq, ctx, p), set())
        for o in objs:
            if o not in cur:
                cur.add(o)
                eng.changed = True

    def call_method(self, cfq: str, m: str, selfp: Set[Obj], argp: List[Set[Obj]], e: ast.AST) -> Set[Obj]:
        c = self.eng.cg._classes.get(cfq)
        meth = c.find_method(m) if c else None
        if meth is None:
            return set()
        return self.invoke(meth, None, selfp, argp, {}, e if isinstance(e, ast.Call) else ast.Call(func=ast.Name(id='_', ctx=ast.Load()), args=[], keywords=[]))

    def container_method(self, e: ast.Call, attr: str, recv: Set[Obj], argp, env) -> Optional[Set[Obj]]:
        eng = self.eng
        a0 = argp[0] if argp else set()
        a1 = argp[1] if len(argp) > 1 else set()
        lists = {o for o in recv if o.kind in ('list', 'summary')}
        dicts = {o for o in recv if o.kind in ('dict', 'summary')}
        sets = {o for o in recv if o.kind in ('set', 'summary')}
        if attr in ('append', 'add', 'insert'):
            tgt = lists | sets if attr != 'insert' else lists
            self.event(e, f'.{attr}()', e.func.value, tgt, ())
            val = a1 if attr == 'insert' else a0
            for o in tgt:
                eng.addf(o, 'elem', val)
            return set()
        if attr in ('extend',):
            self.event(e, '.extend()', e.func.value, lists, ())
            for o in lists:
                eng.addf(o, 'elem', eng.elems(a0))
            return set()
        if attr == 'update':
            self.event(e, '.update()', e.func.value, dicts | sets, ())
            for o in dicts:
                for d in a0:
                    if d.kind in ('dict', 'summary'):
                        eng.addf(o, 'key', eng.getf(d, 'key'))
                        eng.addf(o, 'val', eng.getf(d, 'val'))
                    else:
                        pairs = eng.elems([d])
                        eng.addf(o, 'key', eng.index(pairs, 0))
                        eng.addf(o, 'val', eng.index(pairs, 1))
            for o in sets:
                eng.addf(o, 'elem', eng.elems(a0))
            return set()
        if attr in ('pop', 'popitem', 'remove', 'discard', 'clear', 'sort', 'reverse', 'difference_update',
                    'intersection_update', 'symmetric_difference_update'):
            self.event(e, f'.{attr}()', e.func.value, lists | dicts | sets, ())
            if attr == 'pop':
                out = set()
                for o in lists | sets:
                    out |= eng.getf(o, 'elem')
                for o in dicts:
                    out |= eng.getf(o, 'val')
                return out | a1
            return set()
        if attr == 'setdefault':
            self.event(e, '.setdefault()', e.func.value, dicts, ())
            out = set()
            for o in dicts:
                eng.addf(o, 'key', a0)
                eng.addf(o, 'val', a1)
                out |= eng.getf(o, 'val')
            return out
        if attr == 'get':
            out = set(a1)
            for o in dicts:
                out |= eng.getf(o, 'val')
            return out
        if attr in ('items', 'values', 'keys'):
            v = eng.site_obj(self.fi, self.ctx, e, 'view', attr)
            for o in dicts:
                if attr == 'values':
                    eng.addf(v, 'elem', eng.getf(o, 'val'))
                elif attr == 'keys':
                    eng.addf(v, 'elem', eng.getf(o, 'key'))
                else:
                    pr = eng.site_obj(self.fi, self.ctx, e, 'tuple', 'item')
                    eng.addf(pr, '0', eng.getf(o, 'key'))
                    eng.addf(pr, '1', eng.getf(o, 'val'))
                    eng.addf(v, 'elem', [pr])
            return {v}
        if attr == 'copy':
            out = set()
            site = ('copy', self.fi.fq if self.fi else self.module.name, e.lineno, e.col_offset, f'{self.module.relpath}:{e.lineno}')
            for o in recv:
                if o.kind in LISTLIKE:
                    out.add(eng.clone(site, o, False))
            return out
        if attr in ('difference', 'union', 'intersection', 'symmetric_difference'):
            c = eng.site_obj(self.fi, self.ctx, e, 'set', attr)
            eng.addf(c, 'elem', eng.elems(sets) | eng.elems(a0))
            return {c}
        if attr in ('index', 'count', 'issubset', 'issuperset', 'isdisjoint', 'join', 'format', 'startswith', 'endswith'):
            return set()
        return None

    def ext_call(self, name: str, e: ast.Call, argp, kwp, env) -> Set[Obj]:
        eng = self.eng
        short = name.split('.', 1)[1] if name.startswith('builtins.') else name
        a0 = argp[0] if argp else set()
        if short in ('copy.deepcopy', 'copy.copy'):
            site = ('copy', self.fi.fq if self.fi else self.module.name, e.lineno, e.col_offset, f'{self.module.relpath}:{e.lineno}')
            return {eng.clone(site, o, short == 'copy.deepcopy') for o in a0}
        if short in ('list', 'sorted', 'tuple', 'set', 'frozenset', 'reversed', 'iter', 'filter'):
            kind = {'list': 'list', 'sorted': 'list', 'tuple': 'tuple', 'set': 'set', 'frozenset': 'set'}.get(short, 'iter')
            c = eng.site_obj(self.fi, self.ctx, e, kind, short)
            src = argp[1] if short == 'filter' and len(argp) > 1 else a0
            eng.addf(c, 'elem', eng.elems(src))
            return {c}
        if short == 'dict':
            c = eng.site_obj(self.fi, self.ctx, e, 'dict', 'dict')
            for d in a0:
                if d.kind in ('dict', 'summary'):
                    eng.addf(c, 'key', eng.getf(d, 'key'))
                    eng.addf(c, 'val', eng.getf(d, 'val'))
                else:
                    pairs = eng.elems([d])
                    eng.addf(c, 'key', eng.index(pairs, 0))
                    eng.addf(c, 'val', eng.index(pairs, 1))
            for k, p in kwp.items():
                eng.addf(c, 'val', p)
            return {c}
        if short in ('collections.defaultdict', 'defaultdict'):
            c = eng.site_obj(self.fi, self.ctx, e, 'dict', 'defaultdict')
            if e.args and isinstance(e.args[0], ast.Name) and e.args[0].id in ('list', 'set', 'dict'):
                inner = eng.site_obj(self.fi, self.ctx, e, e.args[0].id, 'default-value')
                eng.addf(c, 'val', [inner])
            return {c}
        if short == 'enumerate':
            c = eng.site_obj(self.fi, self.ctx, e, 'iter', 'enumerate')
            pr = eng.site_obj(self.fi, self.ctx, e, 'tuple', 'enumerate-item')
            eng.addf(pr, '1', eng.elems(a0))
            eng.addf(c, 'elem', [pr])
            return {c}
        if short == 'zip':
            c = eng.site_obj(self.fi, self.ctx, e, 'iter', 'zip')
            pr = eng.site_obj(self.fi, self.ctx, e, 'tuple', 'zip-item')
            for i, p in enumerate(argp):
                eng.addf(pr, str(i), eng.elems(p))
            eng.addf(c, 'elem', [pr])
            return {c}
        if short == 'map':
            c = eng.site_obj(self.fi, self.ctx, e, 'iter', 'map')
            return {c}
        if short == 'next':
            return eng.elems(a0) | (argp[1] if len(argp) > 1 else set())
        if short in ('max', 'min'):
            return eng.elems(a0) if len(argp) == 1 else set().union(*argp)
        if short in ('typing.cast', 'cast') and len(argp) == 2:
            return argp[1]
        if short == 'getattr':
            return set()
        if short == 'setattr' and len(argp) >= 3:
            self.event(e, 'setattr()', e.args[0], {o for o in a0 if o.kind.startswith('inst') or o.kind == 'summary'}, ())
            return set()
        if short == 'random.shuffle':
            self.event(e, 'random.shuffle()', e.args[0], {o for o in a0 if o.kind in ('list', 'summary')}, ())
            return set()
        if short == 'json.load' or short == 'json.loads':
            return {eng.site_obj(self.fi, self.ctx, e, 'summary', 'json')}
        # everything else in the standard library is taken to be pure on its arguments and to return a
        # fresh value (documented assumption)
        return set()


class ModuleEval(BaseEval):
    def __init__(self, eng: EffectsEngine, module: Module):
        super().__init__(eng, module, None, None)

    def name_pts(self, name: str, at: ast.AST, env: dict) -> Set[Obj]:
        r = self.eng.repo.resolve_name(self.module, name)
        if r[0] == 'const':
            return set(self.eng.global_pts.get((r[1].name, r[2]), set()))
        return set()

    def site_module(self):
        return self.module


class FuncEval(BaseEval):
    def __init__(self, eng: EffectsEngine, fi: FuncInfo, ctx):
        super().__init__(eng, fi.module, fi, ctx)
        self.ft = eng.types.ft(fi)
        self.cfg = self.ft.cfg
        self.pm = self.ft.pm
        self.rd = self.ft.rd

    def type_of(self, e: ast.AST) -> T:
        return self.ft.expr(e)

    def event(self, node, kind, recv, receivers, kinds):
        if self.eng._collect:
            self.eng.events.append(Event(self.fi, self.ctx, node, kind, norm(recv), set(receivers)))

    def name_pts(self, name: str, at: ast.AST, env: dict) -> Set[Obj]:
        eng = self.eng
        fi = self.fi
        if name in fi.params or name in eng.cg.local_assigns(fi) or self._bound_here(name):
            try:
                node = owner_node(self.cfg, self.pm, at)
            except (KeyError, AnalysisError):
                node = None
            defs = self.rd.get(node, {}).get(name) if node is not None else None
            out: Set[Obj] = set()
            if defs is None:
                # not reached by any definition on this path (or comprehension variable handled in env)
                for (fq, ctx, n, d), s in eng.defpts.items():
                    if fq == fi.fq and ctx == self.ctx and n == name:
                        out |= s
                return out
            for d in defs:
                if node is not None and not self._reaches_with_object(d, node, name):
                    continue                    # on every path from this definition the value was tested to be an atom / a string / None
                if d == self.cfg.entry:
                    out |= eng.param_pts.get((fi.fq, self.ctx, name), set())
                else:
                    out |= eng.defpts.get((fi.fq, self.ctx, name, d), set())
            return out
        # enclosing function scopes (closures): flow-insensitive union
        f = fi.parent
        while f is not None:
            if name in f.params or name in eng.cg.local_assigns(f):
                out = set()
                for c in eng.contexts.get(f.fq, {None}):
                    out |= eng.param_pts.get((f.fq, c, name), set())
                for (fq, ctx, n, d), s in eng.defpts.items():
                    if fq == f.fq and n == name:
                        out |= s
                return out
            f = f.parent
        r = eng.repo.resolve_name(self.module, name)
        if r[0] == 'const':
            return set(eng.global_pts.get((r[1].name, r[2]), set()))
        return set()

    _guard_cache: Dict[tuple, bool] = {}

    def _reaches_with_object(self, d: int, use: int, name: str) -> bool:
        """False when every CFG path from definition d to the use crosses the true edge of `is_atomic(name)`, `isinstance(name, str)` or
        `name is None`: the value that arrives is then not a container, so it carries no abstract object (path-sensitive pruning)."""
        key = (id(self.cfg), d, use, name)
        hit = FuncEval._guard_cache.get(key)
        if hit is not None:
            return hit
        guards = {f'is_atomic({name})', f'tree.is_atomic({name})', f'isinstance({name}, str)', f'{name} is None'}
        has_guard = any(nd.kind == 'cond' and norm(nd.ast) in guards for nd in self.cfg.nodes)
        res = True
        if has_guard:
            seen, stack = set(), [d]
            res = False
            first = True
            while stack:
                n = stack.pop()
                if n == use and not first:
                    res = True
                    break
                first = False
                if n in seen:
                    continue
                seen.add(n)
                nd = self.cfg.nodes[n]
                if n != d and nd.kind in ('stmt', 'for') and nd.ast is not None and name in assigned_names(nd.ast):
                    continue                    # re-bound here: definition d does not travel further on this path
                for m, lab in self.cfg.succ[n]:
                    if nd.kind == 'cond' and lab == 'T' and norm(nd.ast) in guards:
                        continue
                    if m == use:
                        res = True
                        stack = []
                        break
                    stack.append(m)
        if len(FuncEval._guard_cache) > 200000:
            FuncEval._guard_cache.clear()
        FuncEval._guard_cache[key] = res
        return res

    _bound_cache: Dict[str, Set[str]] = {}

    def _bound_here(self, name: str) -> bool:
        key = self.fi.fq
        if key not in FuncEval._bound_cache:
            names = set()
            for n in walk_local(self.fi.node):
                if isinstance(n, (ast.For, ast.AsyncFor)):
                    names |= {x.id for x in ast.walk(n.target) if isinstance(x, ast.Name)}
                elif isinstance(n, (ast.With, ast.AsyncWith)):
                    for it in n.items:
                        if it.optional_vars is not None:
                            names |= {x.id for x in ast.walk(it.optional_vars) if isinstance(x, ast.Name)}
                elif isinstance(n, ast.ExceptHandler) and n.name:
                    names.add(n.name)
            FuncEval._bound_cache[key] = names
        return name in FuncEval._bound_cache[key]

    def set_def(self, name: str, node_id: int, objs: Set[Obj]):
        if objs and carries_no_object(self.ft.def_types.get((name, node_id), frozenset())):
            return          # strings, numbers, variables, roles, triples: no object identity to track
        key = (self.fi.fq, self.ctx, name, node_id)
        cur = self.eng.defpts.setdefault(key, set())
        for o in objs:
            if o not in cur:
                cur.add(o)
                self.eng.changed = True

    def bind_target(self, target, objs: Set[Obj], node_id: int, stmt: ast.AST):
        eng = self.eng
        if isinstance(target, ast.Name):
            self.set_def(target.id, node_id, objs)
        elif isinstance(target, (ast.Tuple, ast.List)):
            for i, t in enumerate(target.elts):
                if isinstance(t, ast.Starred):
                    self.bind_target(t.value, eng.elems(objs), node_id, stmt)
                else:
                    self.bind_target(t, eng.index(objs, i), node_id, stmt)
        elif isinstance(target, ast.Attribute):
            recv = self.pts(target.value)
            insts = {o for o in recv if o.kind.startswith('inst') or o.kind == 'summary'}
            self.event(stmt, f'attribute store .{target.attr}', target.value, insts, ())
            for o in insts:
                eng.addf(o, target.attr, objs)
        elif isinstance(target, ast.Subscript):
            recv = self.pts(target.value)
            conts = {o for o in recv if o.kind in ('list', 'dict', 'summary')}
            self.event(stmt, 'subscript store', target.value, conts, ())
            if isinstance(target.slice, ast.Slice):
                for o in conts:
                    eng.addf(o, 'elem', eng.elems(objs))
            else:
                kp = self.pts(target.slice)
                for o in conts:
                    if o.kind == 'dict':
                        eng.addf(o, 'key', kp)
                        eng.addf(o, 'val', objs)
                    else:
                        eng.addf(o, 'elem', objs)
                        if o.kind == 'summary':
                            eng.addf(o, 'val', objs)

    def run(self):
        eng = self.eng
        fi = self.fi
        ret: Set[Obj] = set()
        is_gen = any(isinstance(n, (ast.Yield, ast.YieldFrom)) for n in walk_local(fi.node))
        gen_obj = eng.site_obj(fi, self.ctx, fi.node, 'iter', 'generator') if is_gen else None
        for nd in self.cfg.nodes:
            st = nd.ast
            if nd.kind == 'cond':
                self.pts(st)
            elif nd.kind == 'for':
                it = self.pts(st.iter)
                self.bind_target(st.target, eng.elems(it), nd.id, st)
            elif nd.kind == 'stmt':
                if isinstance(st, ast.Assign):
                    v = self.pts(st.value)
                    for t in st.targets:
                        self.bind_target(t, v, nd.id, st)
                elif isinstance(st, ast.AnnAssign):
                    if st.value is not None:
                        self.bind_target(st.target, self.pts(st.value), nd.id, st)
                elif isinstance(st, ast.AugAssign):
                    self.aug(st, nd.id)
                elif isinstance(st, ast.Expr):
                    v = self.pts(st.value)
                    if isinstance(st.value, ast.Yield) and gen_obj is not None:
                        eng.addf(gen_obj, 'elem', v)
                    elif isinstance(st.value, ast.YieldFrom) and gen_obj is not None:
                        eng.addf(gen_obj, 'elem', eng.elems(v))
                elif isinstance(st, ast.Return):
                    if st.value is not None:
                        ret |= self.pts(st.value)
                elif isinstance(st, ast.Delete):
                    for t in st.targets:
                        if isinstance(t, ast.Subscript):
                            recv = self.pts(t.value)
                            self.event(st, 'del subscript', t.value, {o for o in recv if o.kind in ('list', 'dict', 'summary')}, ())
                        elif isinstance(t, ast.Attribute):
                            recv = self.pts(t.value)
                            self.event(st, 'del attribute', t.value, {o for o in recv if o.kind.startswith('inst')}, ())
                elif isinstance(st, (ast.With, ast.AsyncWith)):
                    for it in st.items:
                        v = self.pts(it.context_expr)
                        if it.optional_vars is not None:
                            self.bind_target(it.optional_vars, v, nd.id, st)
                elif isinstance(st, (ast.Raise, ast.Assert)):
                    for c in ast.iter_child_nodes(st):
                        if isinstance(c, ast.expr):
                            self.pts(c)
        # yields inside expressions (x = yield ...) are not used by penman
        for n in walk_local(fi.node):
            if isinstance(n, ast.Yield) and n.value is not None and gen_obj is not None:
                eng.addf(gen_obj, 'elem', self.pts(n.value))
            elif isinstance(n, ast.YieldFrom) and gen_obj is not None:
                eng.addf(gen_obj, 'elem', eng.elems(self.pts(n.value)))
        if gen_obj is not None:
            ret = {gen_obj}
        cur = eng.ret_pts.setdefault((fi.fq, self.ctx), set())
        for o in ret:
            if o not in cur:
                cur.add(o)
                eng.changed = True

    def aug(self, st: ast.AugAssign, node_id: int):
        eng = self.eng
        v = self.pts(st.value)
        t = st.target
        if isinstance(t, ast.Name):
            cur = self.pts(ast.Name(id=t.id, ctx=ast.Load(), lineno=st.lineno, col_offset=st.col_offset)) \
                if False else self.name_pts(t.id, st, {})
            ty = self.type_of(ast.Name(id=t.id, ctx=ast.Load())) if False else self.ft.name_type(t.id, st)
            if any(a == ('inst', 'penman.graph:Graph') for a in ty) and isinstance(st.op, (ast.BitOr, ast.Sub)):
                m = '__ior__' if isinstance(st.op, ast.BitOr) else '__isub__'
                r = self.call_method('penman.graph:Graph', m, cur, [v], st)
                self.set_def(t.id, node_id, r | cur)
                return
            conts = {o for o in cur if o.kind in ('list', 'set', 'dict', 'summary')}
            if conts and isinstance(st.op, (ast.Add, ast.BitOr, ast.Sub, ast.BitAnd)):
                self.event(st, 'augmented assignment (in place)', t, conts, ())
                for o in conts:
                    eng.addf(o, 'elem', eng.elems(v))
            self.set_def(t.id, node_id, cur)
        elif isinstance(t, ast.Attribute):
            recv = self.pts(t.value)
            insts = {o for o in recv if o.kind.startswith('inst') or o.kind == 'summary'}
            self.event(st, f'augmented attribute store .{t.attr}', t.value, insts, ())
        elif isinstance(t, ast.Subscript):
            recv = self.pts(t.value)
            conts = {o for o in recv if o.kind in ('list', 'dict', 'summary')}
            self.event(st, 'augmented subscript store', t.value, conts, ())
