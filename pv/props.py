"""Property -> rules table.  Only properties whose rules are all implemented appear in PROPS;
MANIFEST.json is generated from this table by tools/gen_manifest.py."""

TRUST_RE = ("CPython's regular-expression parser (re._parser) and its documented matching semantics for the "
            "constructs penman uses: ordered alternation, greedy repeats, character classes, '.', '$'")

PROPS = {}

PROPS['C08'] = {
    'level': 'proof',
    'rules': ['R8a', 'R8b', 'R8c', 'R8d', 'R8e', 'R8f', 'R23lex', 'R6'],
    'technique': 'regex-AST to interval automata: emptiness / equivalence / first-set decisions on the token '
                 'patterns folded from the source, plus def-use provenance and must-pass-through on _lex',
    'explanation': (
        'All clauses of C08 are decided from the source of penman/_lexer.py, for both lexing patterns. '
        'PATTERNS and the two _compile(...) constants are constant-folded from the syntax tree, parsed with '
        "CPython's regex parser, turned into interval NFAs over all 1,114,112 code points and decided by our "
        'own subset/product constructions: R8a no inner capture group so m.lastgroup is the class name; R8b no '
        'nullable alternative (tokens are non-empty and do not overlap); R8c no alternative can start with one '
        'of the six ASCII blanks and the catch-all is a single character whose complement is exactly those six '
        '(so exactly they, and nothing else, are skipped); R8d every class language equals the documented '
        'lexical production (witness string on a difference); R8e per first character the ordered list of '
        'alternatives tried is the documented one and every alternative is greedy and 1-unambiguous so the '
        'match is the longest member; R8f delimiters are outside SYMBOL and the ROLE tail. R23lex: in _lex '
        'every line reaches regex.finditer(line), every match is yielded, and the Token fields are '
        'm.lastgroup, the whole match, the index of enumerate(lines, 1), m.start() and the line.'),
    'not_decided': 'Nothing of the statement. The PEG excludes CR/VT/FF inside strings, the statement allows them: '
                   'recorded in evidence, not armed.',
    'trusted_base': [TRUST_RE, 'pv/rx.py (our automata constructions)', 'spec/lexical.json (transcription of docs/notation.rst)',
                     'lines contain LF only as their last character'],
    'level_text': 'Every clause is an exact decision on regex syntax trees (all strings, both patterns) or a '
                  'def-use/path fact on _lex; nothing is sampled.',
    'design_ref': 'DESIGN.md section 5 (C08), rules R8a-f, R23',
}

PROPS['C18'] = {
    'level': 'proof',
    'rules': ['R34', 'R8e', 'R14g_constant', 'R23lex', 'R8b', 'R8c'],
    'technique': 'language inclusion of the JSON-string image of quote in the STRING token language (automata), '
                 'call-shape and guard-set checks on evaluate/type, module-state effects analysis',
    'explanation': (
        'quote: every return is "" under `is None` or json.dumps(str(x)) of the argument with default options '
        '(R34), and the language J that json.dumps emits for a str is shown to be inside L(STRING) for both '
        'patterns, prefix-free with respect to STRING, free of every line terminator, and to start with the '
        'character that dispatches to STRING first (R8e): hence one string token for every Python string. '
        'evaluate: the constant text reaches json.loads unchanged, with parse_constant=str and no other hook, '
        'guarded against the literal names true/false/null, inside a JSONDecodeError handler, followed by the '
        'isinstance filter raising ConstantError; type derives from evaluate and the type map is the documented '
        'one. R14g: none of quote/evaluate/type reads or writes mutable module state (results depend on the '
        'argument only).'),
    'not_decided': 'That int/float come out only for JSON number syntax rests on the json module (trusted); atom texts '
                   'with surrounding whitespace cannot come from the lexer (R8c).',
    'trusted_base': [TRUST_RE, 'pv/rx.py', "the json module's documented escaping (CPython json.encoder.ESCAPE_ASCII) and "
                     'that json.loads inverts json.dumps on strings'],
    'level_text': 'The quote clause is a proof over all Python strings (language inclusion); the evaluate/type clauses '
                  'are exact call-shape facts whose semantics rests on the json module.',
    'design_ref': 'DESIGN.md section 5 (C18), rules R34, R8i',
}

NOT_APPLICABLE = {
    'C06': 'Every clause quantifies over marker histories and is carried by the data-dependent search in '
           'layout.configure (deferred triples, improvised sites, a progress test that needs a ranking argument); the '
           'implicit raise sites (nodemap[var], node[1] on a possibly-None entry) cannot be discharged without value '
           'invariants, so no sound static argument is in reach (DESIGN.md section 5, C06).',
}


FRAME = ('The statement of {pid} quantifies over run-time values (all graphs / trees / texts), which no static argument in '
         'reach decides as a whole. This check decides, from the current source on every run, the structural clauses listed '
         'below; each is a necessary condition of the property (breaking it breaks the behaviour for some input) and each '
         'violation names the construct and, where it applies, a witness string or path. ')


def _p(pid, rules, technique, decided, not_decided, level_text, trusted=None, level='other', thorough_rules=None):
    PROPS[pid] = {
        'level': level, 'rules': rules, 'technique': technique, 'explanation': FRAME.format(pid=pid) + decided,
        'not_decided': not_decided, 'level_text': level_text, 'trusted_base': trusted or [],
        'design_ref': f'DESIGN.md section 5 ({pid})', 'thorough_rules': thorough_rules or [],
    }


T_CFG = 'pv/cfg.py statement CFG (exceptions from calls are not modelled as edges except where a rule says so)'
T_CG = 'pv/callgraph.py name/attribute based call resolution (dynamic dispatch through values of unknown type is not followed)'
T_TY = 'pv/tyeng.py structural type inference (annotations in penman/types.py are taken as given)'
T_DOC = 'the documented behaviour transcribed in spec/*.json (docs/notation.rst, docs/api, command-line help)'

_p('C01', ['R20', 'R8g', 'R8f', 'R8d', 'R8e', 'R45', 'R23lex', 'R69', 'R19', 'R70', 'R71', 'R8a', 'R8b', 'R8c', 'R10', 'R9', 'R16', 'R43', 'R73', 'R76', 'R14'],
   'option-taint abstract interpretation of the formatter; regex automata for the adjacency of written pieces',
   'R20: in penman/_format.py the values of indent and compact can reach only whitespace pieces (taint analysis over every '
   'string the formatter concatenates or joins); content, order and presence of the other pieces do not depend on them. R8g: '
   'for every pair of pieces the formatter writes without whitespace in between (role~alignment, atom~alignment, "(" var, '
   '"/" concept ...) the concatenation is lexed back as exactly those two tokens (product automata over the token classes). '
   'R8f/R8d/R8e: delimiters are outside SYMBOL and the ROLE tail, classes equal the documented lexical grammar, first-character '
   'dispatch is the documented one. R45: a metadata line is written as "# ::key value", the form the comment scanner splits back. '
   'R23lex: tokens carry the text of their match.',
   'Equality of the re-parsed tree with the original (a round trip over all trees) is not decided; trees built by hand from '
   'strings that are not grammar-valid are outside the statement. The parser side is covered at token-kind level by C07.',
   'Exact decisions on regex languages and on the dataflow of two option values; a set of necessary conditions, not a proof of the round trip.',
   [TRUST_RE, 'pv/rx.py', T_CFG])
_p('C02', ['R1', 'R36', 'R49', 'R28', 'R29', 'R5', 'R12', 'R64', 'R15', 'R14', 'R58', 'R53', 'R50', 'R67', 'R66', 'R4', 'R2', 'R1b', 'R73', 'R51', 'R8h'],
   'abstract interpretation of two parallel lists; must-pass-through / exactly-once path checks on CFGs; propositional equivalence of sibling predicates',
   'R1: _interpret_node updates the triple list and the epidata list with the same operation in the same order on every path '
   '(so triples[i] and epidata[i] stay in step) and attaches POP to the last epidata entry of the nested node. R36: exactly one '
   'Push, one POP and one recursive call on every path through the nested-node arm; _preconfigure reads the markers of every '
   'triple and queues one POP per Pop marker after the triple; _configure_node closes one level per Pop and opens one per '
   'honoured Push; node_contexts pops once per marker. R49: alignment text is split without losing a character. R28/R29: '
   'invert_role, is_role_inverted, deinvert and has_role agree (boolean equivalence), suffix tests and slices agree in length. '
   'R5/R12: interpretation deinverts only through Model.deinvert and the codec hands its model to every model-taking call.',
   'That configure replays the markers into an equal tree for every well-formed tree (a statement about the data-dependent '
   'search in layout.configure) is not decided.',
   'Path and pairing facts that hold on every CFG path of the anchored functions; necessary conditions of the round trip.',
   [T_CFG, T_CG])
_p('C03', ['R4', 'R50', 'R51', 'R12', 'R28', 'R29', 'R64', 'R67', 'R14', 'R58', 'R53', 'R5', 'R36', 'R15', 'R1', 'R1b', 'R2', 'R66', 'R73', 'R74'],
   'structural type inference + truthiness-context lint; regex language intersection on model role tables; must-pass-through on the node map',
   'R4: no value typed as a constant (target, concept, tree atom) is tested for truthiness anywhere on the encode/decode paths, '
   'so 0, 0.0 and "" are never dropped. R50: only variables become keys of the node map. R51: the alignment of a quoted atom '
   'starts after its last quote. R12: the codec model reaches configure/interpret. R28/R29: the model predicates that decide '
   'inversion agree. R64: no open-class pattern of a shipped role table matches a role ending in -of (witness by automata '
   'intersection). R67: _configure_node replaces a node-map entry by a fresh node only after reading the existing entry (one '
   'node per variable; defect F17 was a path that skipped this).',
   'Success of configure for every connected graph and every top, and equality of the decoded graph (the improvisation search '
   'of layout.configure, see C06) are not decided.',
   'Type-based lint with zero tolerated sites, an exact language decision, and a path check; necessary conditions only.',
   [T_TY, T_CFG, TRUST_RE])
_p('C04', ['R5', 'R1b', 'R8h', 'R11', 'R49', 'R51', 'R58', 'R29', 'R64', 'R6', 'R70', 'R1', 'R12', 'R4', 'R36', 'R73'],
   'call-graph reachability + class-override scan; typed lookup lint; regex alphabets; path conditions',
   'R5: every deinversion in interpretation goes through Model.deinvert, the hook NoOpModel overrides. R1b: a node without a '
   'concept gets (var, :instance, None) inserted at position 0, exactly when no "/" branch was seen. R58: the variable set used '
   'to tell edges from attributes is the variables of all nodes of the tree, the top included, and is passed down unchanged. '
   'R11: a raw atom is never looked up among variables with its ~alignment attached. R8h/R49/R51: the lexical facts the '
   'alignment split relies on (no "~" in a role/symbol body other than the alignment, quoted atoms split after the last quote). '
   'R29: deinvert inverts exactly when is_role_inverted(role), once.',
   'That the list of triples equals the documented reading for every text is not decided as a whole (depth-first order is '
   'covered by R1 under C02).',
   'Structural necessary conditions; each violation names the call or branch.', [T_CG, T_TY, TRUST_RE])
_p('C05', ['R26', 'R27', 'R47', 'R23model', 'R14', 'R50', 'R53', 'R5', 'R67', 'R36', 'R2', 'R66', 'R4', 'R29', 'R28', 'R15', 'R73', 'R64'],
   'symbolic list-shape evaluation; class-hierarchy check; typestate over sort/top; regex language equivalence; points-to mutation effects',
   'R26: _rearrange stores concat(b[:k], sorted(b[k:], key=key)) with k = 1 exactly under the test that establishes a leading '
   '"/" branch and k = 0 otherwise (a permutation that keeps the concept first, stable, ascending), recurses into every nested '
   'node, and reconfigure changes the copied triple list only by list.sort(key=...). R27: reconfigure removes exactly Push and '
   'Pop markers (class hierarchy), never alignments. R47: the top is resolved before the triples are reordered (defect F15). '
   'R23model: alphanumeric_order splits with a pattern language-equivalent to (.*\\D)(\\d+)$ whose name group cannot end in a '
   'digit and compares the number as int; canonical_order is (is_role_inverted, alphanumeric). R14: reconfigure/rearrange do '
   'not mutate their graph argument (points-to + mutation events). R50: only variables key the node map.',
   'That configure of the reordered triples yields the same graph content (needs C06) is not decided.',
   'Exact symbolic facts on the anchored functions plus a whole-program mutation analysis; necessary conditions.',
   [T_CFG, T_TY, 'pv/effects.py Andersen-style points-to with type-pruned flow', TRUST_RE])
_p('C07', ['R19', 'R9', 'R16', 'R43', 'R18', 'R35', 'R10', 'R6', 'R23lex', 'R8a', 'R8b', 'R8c', 'R8d', 'R8e', 'R8f', 'R69', 'R41', 'R59', 'R37', 'R74'],
   'token-kind abstract interpretation of the parser against a reference recogniser (bounded); typestate dataflow; call-result-use lint',
   'R19: the parser functions and TokenIterator are interpreted over token *kinds* (all sequences up to length 5, nesting 2 in '
   'the quick tier; 8 and 3 in the thorough tier) and acceptance, tree skeleton and the index of the failing token are compared '
   'with a hand-written recogniser of the documented grammar. R16/R43: next() is called only after a successful peek, and the '
   'last-token state survives exhaustion (so no StopIteration escapes and end-of-input errors point at the end of the last '
   'token). R9: an error object that is built is raised. R18: only DecodeError is raised explicitly on parse paths; implicit '
   'raise sites are inventoried. R35: frames per nesting level leave room for 200 levels. R10: every token class is known to '
   'the parser. R6/R23lex: line splitting and token positions.',
   'The kind-level interpretation abstracts token text (the fused triple form role(a,b) is handled by R59 under C19) and is '
   'bounded in length and depth; unbounded equivalence with the documented grammar is not proved.',
   'Bounded-exhaustive comparison at the level of token kinds (no input text is lexed or parsed by penman) plus exact typestate facts.',
   [T_CFG, 'pv/pfsm.py reference recogniser (hand-written from docs/notation.rst)', T_DOC])
_p('C09', ['R6', 'R37', 'R12', 'R45', 'R8d', 'R8e', 'R23lex', 'R73', 'R77', 'R76'],
   'splitter regex language equivalence; reachability of the one lexer; symbolic output pieces of the stream writer',
   'R6: string input is split by a regex whose language equals \\r\\n|\\r|\\n (defect F2 was str.splitlines). R37: every '
   'decoding entry point reaches the one lexer with its argument unmodified, comments and node come from one token stream, '
   '_dumps joins with exactly one empty line and _dump_stream writes [text, LF] then [LF, text, LF] per further graph and '
   'survives an empty sequence. R12: the model is forwarded. R45: metadata is written in the form the comment scanner reads back.',
   'Equality of the decoded graphs across containers for every text is not decided; file iteration semantics of CPython are trusted.',
   'Exact language decision and call-shape facts; necessary conditions.', [TRUST_RE, T_CG, 'text-mode file iteration splits at LF, CRLF, CR (universal newlines)'])
_p('C10', ['R11', 'R30', 'R31', 'R52', 'R70', 'R58', 'R78'],
   'typed lookup lint; loop-shape path checks; may-analysis of freshness',
   'R30: _map_vars yields exactly one output branch per input branch, passes roles through, rewrites a target only by recursion '
   'into nested nodes or by the variable map on non-concept atoms, keeps the alignment suffix, and returns the output list (never '
   'the input list). R11: the key looked up in the map is the atom without its ~alignment (defect F7). R52: reset_variables maps '
   'every node variable not yet mapped and always applies the map. R31: a generated name is accepted only after a membership '
   'test against the used names and is recorded before the next search (bijection).',
   'That interpretation commutes with the renaming is not decided.',
   'CFG path facts on three functions; necessary conditions.', [T_CFG, T_TY])
_p('C11', ['R31', 'R3', 'R38', 'R33', 'R36', 'R44', 'R62', 'R63', 'R15', 'R2', 'R66', 'R32', 'R65', 'R14', 'R64', 'R29', 'R28', 'R73', 'R75', 'R78'],
   'may-analysis of freshness; constructor-argument lint; closed-world listing of what flows into a set; control-dependence facts',
   'R31: reify_edges / Model.reify accept a new variable only after testing it against the variables in use. R3: transformed '
   'graphs are built with the argument\'s top. R38: a node enters the dereification agenda only if it is not in the fixed set, '
   'has exactly two relations and a dereifiable concept; everything that flows into the fixed set is listed (top and every '
   'non-instance target, not conditional on a map the same loop is still filling). R33/R63 marker migration: every '
   'marker bucket is carried over and alignments keep their prefix. R62: the search through a (de)reification table goes on '
   'after a non-matching entry. R36/R44: the layout diagnostics reify_edges relies on.',
   'That dereify(reify(g)) equals g down to the text is not decided.',
   'Dataflow and path facts; necessary conditions.', [T_CFG, T_CG])
_p('C12', ['R2', 'R3', 'R31', 'R14', 'R53', 'R24', 'R33', 'R63', 'R65', 'R66', 'R32', 'R15', 'R38', 'R50', 'R36', 'R44', 'R67', 'R4', 'R62', 'R73', 'R74', 'R78', 'R79'],
   'typed partial-map access lint with dominating guards; pipeline order on CFG paths; selection-predicate equivalence',
   'R2: Graph.epidata is treated as a partial map everywhere (every keyed read is guarded, uses .get, or is total by '
   'construction; defect F9). R3: every transformation passes top= (defect F12). R53: configure drops superfluous POPs before '
   'and after each improvised round. R66: a list that a function pops is not indexed at [-1] unless known non-empty (defect '
   'F16: node_contexts after dereification). R24: the tool applies the transformations in the documented order. R33/R63/R65: '
   'markers of a replaced triple are carried over (dereification drops role alignments only). R31: fresh variables. R14: '
   'arguments are not mutated.',
   'That every composition returns a graph that encodes and decodes to itself is not decided (needs C06).',
   'Lint with zero tolerated sites plus path facts; necessary conditions.', [T_TY, T_CFG, 'pv/effects.py'])
_p('C13', ['R29', 'R28', 'R23model', 'R24m', 'R30', 'R48', 'R64', 'R5', 'R73'],
   'propositional equivalence of sibling predicates (truth tables over syntactic atoms); expression-flow expansion; cache-key dependence',
   'R29: is_role_inverted == (not defined and ends in -of); invert_role strips exactly when inverted and appends otherwise; '
   'has_role == defined or single inversion of a defined role; deinvert inverts once, exactly when inverted; the role pattern '
   'is a grouped, anchored alternation. R28: suffix literal and slice length agree; -of is never cut by partition/replace/strip. '
   'R24m: on every return path canonicalize_role applies the table lookup to the inversion-normalised role, last; '
   '_canonicalize_inversion rewrites through invert_role only, twice per round. R23model: invert swaps source and target, the '
   'no-op deinvert returns its argument. R30: canonicalize_roles changes role text only. R48: a local cache is keyed by '
   'everything its value depends on.',
   'Idempotence and involution as algebraic laws over all role strings are not proved; a re-implementation of '
   '_canonicalize_inversion by other means is reported as undecided (exit 2).',
   'Exact boolean equivalences with counter-assignments; necessary conditions.', [T_CFG])
_p('C14', ['R2', 'R1', 'R36', 'R44', 'R61', 'R66', 'R15', 'R74', 'R58', 'R14'],
   'partial-map lint; path checks on the context-stack simulation; module-state lint',
   'R36: node_contexts pushes the pushed variable of a triple and pops once per Pop marker (no early exit, no "any"); R44: '
   'appears_inverted answers False outright only for instance/attribute triples, compares the pushed variable with the source '
   'and the node context with the target; R1: the markers it reads are in step with the triples; R2/R66: the diagnostics do not '
   'raise on graphs without markers or with surplus POPs; R61: no result is cached in module-level state keyed by a graph.',
   'Agreement of the reported contexts with the text for every decoded graph is not decided; replacing the stack simulation by '
   'another algorithm is reported as undecided (exit 2).',
   'Path facts on three functions; necessary conditions.', [T_CFG, T_TY])
_p('C15', ['R21', 'R22', 'R23top', 'R39', 'R14', 'R54', 'R55', 'R57', 'R2', 'R13'],
   'selection-predicate summaries + truth tables; symbolic path enumeration; guard-before-store may-analysis; points-to mutation effects',
   'R21: the selection predicates of instances/edges/attributes (derived through comprehensions, loops, helpers and '
   '_filter_triples) are pairwise disjoint and jointly exhaustive, edges == not instance and target in variables(), a filter '
   'selects iff every given component equals its slot, elements are the triples themselves. R39: no reordering between '
   'self.triples and a query result; union appends in the order of other.triples. R23top: the getter returns triples[0][0] '
   'exactly when no explicit top is set and triples exist. R22: the setter stores only after `is None` or `in variables()`. '
   'R54/R57: difference resets an explicit top exactly when it occurs in no remaining triple; derived graphs keep an implicit top '
   'implicit. R55: re-entrancy counting. R14: non-in-place operators do not mutate operands.',
   'That union/difference carry markers along for every operand pair is covered only by R14/R39 shapes.',
   'Exact propositional decisions over the predicates found in the source; necessary conditions (close to complete for the query clauses).',
   [T_CFG, 'pv/select.py selection summaries', 'pv/effects.py'])
_p('C16', ['R40', 'R28', 'R29', 'R7', 'R13', 'R12', 'R73', 'R74'],
   'must-pass-through on the checking loop; loop-carried status accumulation dataflow',
   'R40: Model.errors loops over all of graph.triples, tests has_role on the role the triple carries on every iteration, records '
   '"invalid role" under exactly that test, builds reachability only over targets that are variables of the graph, and records '
   '"unreachable" per triple. R29/R28: has_role is defined-or-single-inversion. R7: in __main__ the status of every graph and '
   'every file is OR-ed into the value passed to sys.exit (defect F3), with no short-circuit.',
   'Completeness of the reachability computation (_dfs) for every graph is not decided.',
   'Path and dataflow facts; necessary conditions.', [T_CFG, T_CG])
_p('C17', ['R14', 'R13', 'R15', 'R60', 'R61', 'R48', 'R75', 'R76', 'R77'],
   'whole-program points-to with mutation events against a table of pure entry points; set-iteration classification on inferred types',
   'R14: for every entry point listed in spec/pure_api.json no mutation event (attribute/subscript store, mutating method, '
   'in-place operator) can reach an object that is reachable from an argument or from module-level state (Andersen-style '
   'points-to, constructor contexts, copies modelled as clones). R13: every iteration over a value that may be a set is sorted, '
   'consumed order-insensitively, or frozen with a reason. R15: POP is tested by type. R60/R61: no memoisation of functions '
   'returning mutable objects, no argument-dependent result kept in module-level state.',
   'Determinism across processes beyond hash-order effects (e.g. random_order by design) is not decided.',
   'A sound-by-construction may-analysis (over-approximate flow, so a pass means no mutation path exists in the model) plus lints.',
   ['pv/effects.py (heap model: one object per allocation site and constructor context; strings/numbers carry no objects)', T_CG, T_TY])
_p('C19', ['R10', 'R9', 'R41', 'R16', 'R56', 'R37', 'R18', 'R59', 'R8d', 'R8e', 'R6', 'R60', 'R61', 'R23lex', 'R69', 'R74', 'R43'],
   'token-class coverage via reaching definitions; regex language decisions on TRIPLE_RE; output-shape check of the writer',
   'R56: format_triples writes role(source, target) per triple joined by " ^" and LF or space. R41: the writer strips the leading '
   'colon and the reader/Graph restores it. R10: every token class of TRIPLE_RE is handled by _parse_triple and STRING is accepted '
   'where the writer emits it (defect F8). R59: the fused token role(a,b) is split at the first comma only. R9/R16/R18: errors are '
   'raised, no StopIteration escapes. R8d/R8e: the token classes of TRIPLE_RE are the documented ones.',
   'Equality of the parsed list with the written list for all symbol/string contents is not decided.',
   'Reaching-definition and language facts; necessary conditions.', [TRUST_RE, T_CFG])
_p('C20', ['R24', 'R25', 'R12', 'R42', 'R7', 'R13', 'R20', 'R31', 'R38', 'R2', 'R53', 'R71', 'R72', 'R37', 'R56', 'R45', 'R47', 'R27', 'R26', 'R52', 'R33', 'R3', 'R14', 'R41', 'R10', 'R73', 'R74', 'R24m', 'R77', 'R76', 'R78'],
   'CFG order of pipeline calls with interprocedural summaries; guard facts per option; argument threading',
   'R24: on every path through process/_process_in/_process_out the operations occur in the documented order (spec/pipeline.json). '
   'R25: every documented option is defined, feeds its own entry of the option dicts, and guards exactly its own operation. '
   'R12: the session model reaches every model-taking call (defect F13). R42: one graph is printed per parsed tree, in order, '
   'with one separator, and the printed text is the formatter result. R7: exit status. R20: formatting options touch whitespace '
   'only. R13: no hash order in output.',
   'Byte-for-byte idempotence of the output is not decided.',
   'Path, guard and threading facts on penman/__main__.py; necessary conditions.', [T_CFG, T_CG, T_DOC])


# ---------------------------------------------------------------------------------------------
# Rules added after the fifth seeding round and the mutant sweep (tools/dev/mutsweep.py). They are general
# necessary conditions; each is registered for every property whose observable API runs through the code it reads.
_ALL = sorted(PROPS)
_EXTRA = {
    'R80': (['C02', 'C03', 'C04', 'C05', 'C10', 'C11', 'C12', 'C14', 'C15', 'C16', 'C17', 'C20'],
            'R80: no variable / role / constant (one string, by E3 type) is handed to set(), list.extend, set.union ... which would take it apart into characters.'),
    'R81': (_ALL, 'R81: definite assignment - on no CFG path is a local read before it is bound (such a path ends in UnboundLocalError, neither a result nor the documented error).'),
    'R82': (['C16', 'C20'], 'R82: in _check the counter that names the error-N key moves between two offending triples on every path.'),
    'R83': (['C03', 'C05', 'C12', 'C20'], 'R83: _find_next skips POP data, stops at its first hit, and splits the pending data with the index of the loop that found the hit.'),
    'R84': (['C04'], 'R84: surface.alignments / role_alignments scan the whole marker list of a triple.'),
    'R85': (['C10', 'C20'], 'R85: the letter that becomes the variable prefix is chosen with str.isalpha (or a one-character pattern whose language is exactly that set).'),
    'R58': (['C05', 'C12', 'C20'], 'R58: rearrange(attributes_first=True) tells attributes from edges with the variables of all nodes of the tree (t.nodes()), the top included.'),
    'R14': (['C10', 'C13'], 'R14 (E4): nodes(), format, interpret and the other read-only calls on a tree do not write to it (a cache written by a query goes stale when the tree is rearranged, and relabelling then numbers the old order).'),
    'R14r': (['C17', 'C13', 'C20'], 'R14r (E4): the tree returned by canonicalize_roles / configure / reconfigure / parse contains no list object of an argument (the points-to closure of the result is disjoint from the parameters\' lists), so the in-place operations on the result cannot reach the original.'),
    'R88': (['C01', 'C02', 'C03', 'C09', 'C11', 'C12', 'C15', 'C16', 'C20'], 'R88: a constructor stores what it is given (reaching definitions: the parameter itself reaches self.x) and every Graph / Tree built from a graph or tree argument is given that argument\'s metadata.'),
    'R89': (['C01', 'C02', 'C03', 'C05', 'C09', 'C10', 'C19', 'C20'], 'R89: the parameters and default values of the public callables are the documented ones (spec/signatures.json, transcribed from the pinned tree and the API docs).'),
    'R90': (['C02', 'C03', 'C04', 'C05', 'C20'], 'R90: a branch target (atom or nested node by E3 type) is indexed only under the is_atomic test that excludes the atom.'),
    'R91': (['C16', 'C20'], 'R91: decision table of Model.errors - under each of the four cases (no triples / no top / top not a source / usable top) every path passes the message (or the reachability search) that applies and none that does not (deterministic CFG walk under the case\'s truth assignment).'),
    'R92': (['C12', 'C20'], 'R92: indicate_branches appends, before each triple that carries a Push, one TOP triple oriented from the enclosing node to the pushed variable, and re-appends every triple.'),
    'R93': (['C11', 'C12', 'C20'], 'R93: Model.dereify returns a triple only under both role equalities of one orientation, builds it from the matching ends, and raises ModelError when the loop is exhausted.'),
    'R94': (['C11', 'C12', 'C14', 'C20'], 'R94: reify_edges / reify_attributes store a marker list for every triple they create, exactly one of them with Push(new variable) (and POP on the one-triple node), swap in/out under appears_inverted, and copy unchanged triples in place.'),
    'R95': (['C16', 'C20'], 'R95: _dfs makes the relation symmetric (recognised closure shape, no unguarded reset of a neighbour set) and pushes every unvisited neighbour (filter polarity, work-list shape).'),
    'R96': (_ALL, 'R96: every callable with a non-optional result annotation returns a value on every normal exit (no `return None`, no falling off the end).'),
    'R97': (['C02', 'C03', 'C05', 'C11', 'C12', 'C20'], 'R97: in _configure_node no path leads from the unexpected-inversion arm to the recursive call without the push flag having been cleared.'),
    'R98': (['C01', 'C09', 'C20'], 'R98: _parse_comments stores a key/value pair exactly under the "found" fact of the "::" split, scans while text is left, and returns the map it filled.'),
    'R99': (['C07', 'C19', 'C20'], 'R99: in _parse_triple each way of obtaining the target is justified by facts on the path (rest non-empty / comma seen / token starts with a comma), and the only raise is under "a token that neither is nor starts with a comma", reported at that token.'),
    'R100': (['C10', 'C20'], 'R100: _map_vars indexes the rename map only under `ref in varmap` (or with the node variable), and reset_variables takes the concept from the branch whose role is "/".'),
    'R101': (['C02', 'C03', 'C04', 'C05', 'C11', 'C12', 'C14', 'C15', 'C16'], 'R101: by E3 types, no == / != compares a role with a variable or constant, or a container with a string (a comparison with a fixed outcome means the wrong slot is looked at).'),
    'R96b': (_ALL, 'R96b: a function that returns no value on any exit is not used for its result by any caller.'),
    'R102': (['C20', 'C16'], 'R102: every documented option is defined by an add_argument call with the documented action / type / nargs / default / dest (spec/cli.json).'),
    'R103': (['C20', 'C05', 'C17'], 'R103: the key-list type function splits at commas and rejects unknown names under the membership fact; _make_sort_key looks names up on the model, appends found methods, stores True flags for the others, and returns (function, flags).'),
    'R104': (_ALL, 'R104: in no loop does a variable that is set from the current element only on some paths reach a use in a later iteration without having been set again (reaching definitions through the loop head plus a definition-free path from the head to the use).'),
    'R105': (['C20', 'C16'], 'R105: _get_model binds each model exactly in its documented case (facts on --amr / --noop / --model), _indent maps the words to None, numbers through int(), rejects exactly values below -1 and defaults to -1, process chooses format_triples / format by the triples flag and formats the result of _process_out, and main feeds every process() status into the exit status (accumulating inside the file loop).'),
    'R106': (['C09', 'C20', 'C17'], 'R106: a stream parameter (or a plain alias of it, by reaching definitions) is never the subject of `with`, `.close()` or a sized `read`/`readline`.'),
    'R107': (['C18'], 'R107: the condition of the "unbalanced quotes" error is, as a propositional formula over startswith(quote) / endswith(quote), exactly their exclusive or (no further atom).'),
    'R6': (['C01', 'C20'], 'R6: a text is split into lines at LF, CRLF and CR only (str.splitlines would also cut inside quoted strings and comments at VT, FF, NEL, LS, PS).'),
    'R13': (['C05'], 'R13: no set iteration order reaches an ordered result (key precedence of --rearrange must be the written order).'),
    'R24': (['C10', 'C11'], 'R24: in the tool the variables are renamed after the tree was rearranged (pipeline order).'),
    'R25': (['C11'], 'R25: --reify-edges and --dereify-edges each guard exactly their own step (both may be given).'),
    'R5': (['C14', 'C20'], 'R5: interpretation turns an inverted triple round through Model.deinvert only (the no-op model overrides exactly that method).'),
    'R11': (['C14', 'C05', 'C12', 'C03'], 'R11: a variable reference is compared with the variable set after its alignment suffix was split off.'),
    'R32': (['C14', 'C04'], 'R32: a value that is cast to Variable was tested to be one.'),
    'R90': (['C14'], 'R90: branch targets are taken apart only under the is_atomic test.'),
    'R73': (['C19', 'C14'], 'R73: optional context (a flag, a token) that a function holds under the same name as its callee\'s parameter is passed on.'),
    'R109': (['C01', 'C02', 'C03', 'C04', 'C05', 'C07', 'C08', 'C09', 'C10', 'C11', 'C12', 'C13', 'C14', 'C15', 'C16', 'C17', 'C18', 'C19', 'C20'],
             'R109: every name read in a function, class body or at module level is bound in that scope, an enclosing function, the module or the builtins (symbol-table scopes; '
             'a name with no binding raises NameError on the path that reads it, where the property promises a result or a documented error).'),
    'R110': (['C04', 'C02'],
             'R110: in penman.layout every search for "~" in a role or atom starts at the beginning of the token, or behind a prefix that the lexer\'s ROLE/SYMBOL + ALIGNMENT '
             'languages (E5 automata) show can never contain "~"; a witness token is reported otherwise.'),
    'R111': (['C01', 'C07', 'C08', 'C09', 'C19'],
             'R111: every constant character set passed to str.strip/rstrip/lstrip is free of backslash-letter pairs (the residue of an escape written in a raw string).'),
    'R112': (['C02', 'C03', 'C10', 'C13'],
             'R112: in penman.tree/layout/_format/transform a loop over a proper slice of a node\'s branch list stands under a test of the left-out branch (`branches[0][0] == "/"`), '
             'or the left-out branches are read elsewhere in the function (then undecided); otherwise the skipped branch and everything nested under it is never visited.'),
    'R113': (['C14'],
             'R113: in node_contexts the membership test on the target of a triple is made against g.variables(); a set obtained from another Graph query '
             '(reentrancies, edges, ...) is a proper subset and is reported with the shape of graph that loses its contexts.'),
    'R114': (['C11', 'C12', 'C20'],
             'R114: every membership test / subscript / .get on Model.reifications and Model.dereifications uses a key that is a parameter, an element of a parameter or an '
             'unpacked element of one (through cast); a key that is the result of a call (canonicalize_role, lower, ...) is reported.'),
    'R115': (['C16', 'C20'],
             'R115: in process() no call that takes the checked graph (or an attribute of it) can reach the _check call within one loop iteration (CFG path search): '
             'output objects are derived from the graph only after the check has written its report into the metadata.'),
    'R116': (['C02', 'C03', 'C05', 'C12', 'C14', 'C20'],
             'R116: an index that ranges over a filtered copy (a comprehension with an `if`, list(filter(...))) of a sequence is never used to subscript or slice the '
             'unfiltered sequence; all `for i in range(len(A))` / enumerate(A) loops of the package are listed.'),
    'R117': (['C05', 'C17', 'C20'],
             'R117: no sorted()/list.sort() call orders (key(x), x) pairs without key= (a decorate-sort-undecorate that falls back to comparing the elements on ties: '
             'not stable, and TypeError for elements of mixed type).'),
    'R23model': (['C04', 'C02', 'C03'], 'R23model (sibling): Model.invert swaps source and target and inverts the role on every return path; a path that returns the argument unchanged is reported with its condition.'),
    'R118': (['C08', 'C01', 'C07', 'C09', 'C19'],
             'R118: in every loop over pattern.finditer(...) a loop-carried cursor set to m.start() + k is checked against the pattern\'s language (E5): all matches must be '
             'k characters long, otherwise a witness match is reported.'),
    'R120': (['C01', 'C09', 'C04', 'C02', 'C19', 'C20'],
             'R120: every subscript or slice that uses the result of str.find/rfind stands under a condition on that result or on the presence of the searched text '
             '(CFG facts); an unguarded use is reported (-1 silently means "last character").'),
    'R1': (['C20'], 'R1 (sibling): interpret pairs triples with their markers first-statement-wins; dict(pairs) (last wins) is reported - the normal form of C20 depends on it.'),
    'R121': (['C20', 'C05'],
             'R121: the key tables handed to _make_sort_key fold to the documented key-name -> ordering tables (spec/cli.json key_tables), and every value names a Model method or a '
             'keyword parameter of layout.rearrange / layout.reconfigure.'),
    'R122': (['C20', 'C05'],
             'R122: in penman.__main__ every local bound from normalize_options / format_options / args has a use that its definition reaches (reaching definitions on the CFG); '
             'an option value that is unpacked and then dropped is reported.'),
    'R123': (['C15', 'C02', 'C03'],
             'R123: Graph.__init__ stores (source, _ensure_colon(role), target) for every input triple; when a helper builds the stored triple, each of its symbolic return paths '
             'must have that shape (a path that passes the argument through unchanged is reported with its condition).'),
    'R124': (['C14'],
             'R124: in node_contexts the target of a triple becomes a candidate context only under `role != CONCEPT_ROLE` and membership in the variables (CFG facts at the append); '
             'the stack top is recorded only under the established candidate test; the mismatch branch leaves the loop.'),
    'R28': (['C04'], 'R28 (sibling): the -of suffix is cut with a slice of its own length, never by replace/partition/strip (which cut at the first occurrence).'),
    'R125': (['C05', 'C20', 'C02', 'C03'],
             'R125: where a list is split into two comprehensions over the same source and concatenated again, the two filter conditions are checked (E7 boolean normaliser, with '
             '"str implies atomic" and "member of the variables implies str") to hold for exactly one of them under every feasible assignment; a witness element is reported otherwise.'),
    'R126': (['C05', 'C20', 'C17'],
             'R126: every def / lambda inside a loop body is examined: the names it reads that the loop re-binds must be empty, or the function object must not outlive the iteration '
             '(called on the spot, or a key= of an immediate call); otherwise the late-binding closure is reported.'),
    'R127': (['C07', 'C01', 'C09', 'C19', 'C04', 'C20'],
             'R127: an assignment that unpacks str.split/rsplit into a fixed number of names stands under a condition on the text that is split (CFG facts); otherwise the '
             'ValueError for a text with fewer separators is reported.'),
    'R43': (['C08', 'C09'], 'R43 (sibling): the TokenIterator protocol methods keep the one-token lookahead consistent (a token is handed out once, with its own position).'),
    'R128': (['C11', 'C12', 'C04', 'C17', 'C02'],
             'R128: AlignmentMarker.__eq__ is read (it does not compare classes); given that, no ==, in / not in, list.remove/index/count is applied to a marker taken from an epidata '
             'list in transform, layout, surface, graph or __main__ - markers are classified with isinstance or .mode only.'),
    'R48': (['C19'], 'R48 (sibling): a memo or cache is keyed by everything its stored result depends on (a result that also depends on a flag is not stored under the text alone).'),
    'R130': (['C15', 'C17'],
             'R130: in Graph.__ior__ the markers of the right operand are taken over for every added triple: by epidata.update(other.epidata), or by a copying loop whose range is '
             'other.triples / the list of added triples; a range computed from the size of a set of new triples is reported.'),
    'R131': (['C17'],
             'R131: no attribute of a library class (Model, Graph, Tree, PENMANCodec, the markers, ...) is bound to a value of a kind that cannot be pickled or deep-copied '
             '(mappingproxy, lambda, generator, iterator, nested function, lock, open file): the result of a call must not depend on whether it runs in a worker process.'),
    'R132': (['C03', 'C01', 'C02', 'C20'],
             'R132: in _format_edge the target of the edge is re-bound only to "" (missing target), to the text of a nested node, or not at all; a numeric or string conversion '
             'applied to it (int, float, round, lower, strip, ...) is reported.'),
    'R133': (['C02', 'C04', 'C11', 'C20'],
             'R133: in _configure_node the marker list unpacked from a datum is neither filtered, sliced nor emptied before it becomes part of the branch tuple.'),
    'R51': (['C20'], 'R51 (sibling): the end of a quoted string with an alignment is found from the right (the last quote), so escaped quotes inside the string are not taken for its end.'),
    'R19': (['C03', 'C12', 'C09'], 'R19 (sibling): parse / iterparse accept exactly the documented token-kind language (a target-less role before ")" and an aligned string concept included) - what encode writes must be readable.'),
    'R129': (['C08', 'C09', 'C01', 'C07'],
             'R129: in lex() every re-binding of the lines argument that can apply to non-string input keeps the items: no str.join of the items, no filter, no '
             '`split(...)[0]` / `partition(...)[0]` of an item.'),
    'R134': (['C03', 'C02', 'C04', 'C20'],
             'R134: in _process_epigraph the target of a branch is re-bound to formatted text only inside the loop over its markers (or with None excluded): a target without '
             'markers - in particular a missing one - stays what it is.'),
    'R135': (['C11', 'C12', 'C04', 'C02'],
             'R135: Model.reify writes, and Model.dereify recognises, the instance triple of a relation node with the constant CONCEPT_ROLE - the same value that every '
             'comparison in transform / layout / graph uses (counted on each run); a model setting in its place is reported.'),
    'R8e': (['C03'], 'R8e (sibling): the token patterns recognise the documented classes; a quoted string with escaped quotes is one STRING token - what encode writes must be readable again.'),
    'R79': (['C17'], 'R79 (sibling): reify_attributes selects the attribute triples by the VALUE of the role (== / !=), never by the identity of the string object (`is`), which differs between processes.'),
    'R136': (['C05', 'C20'],
             'R136: in _rearrange every path from entry to exit passes the loop that contains the recursive call (CFG path search): no early return cuts a subtree off.'),
    'R142': (['C09', 'C07', 'C08', 'C01', 'C19', 'C20'],
             'R142: for every `x = next(it, None)`, each place where x is put into a list / chain / append / yield carries the branch fact that x is not None.'),
    'R12': (['C14'], 'R12 (sibling): the session model reaches every model-taking call of the codec - what node_contexts / appears_inverted report is computed on the triples that decode produced with it.'),
    'R147': (['C18', 'C17', 'C15', 'C12', 'C10'],
             'R147: every `is` / `is not` comparison in the package has a singleton on one side (None, True, False, an upper-case module-level sentinel, a class, type(...)).'),
    'R148': (['C19', 'C07', 'C01', 'C09'],
             'R148: in penman._parse no name is assigned a constant under the branch fact that the same name equals (or is one of) some non-empty string literal(s).'),
    'R146': (['C02', 'C03', 'C05', 'C12'],
             'R146: in _preconfigure the call model.invert(triple) stands under the branch fact <pushed variable> == <source of the triple> and under no test of another attribute of the marker.'),
    'R145': (['C02', 'C01', 'C03', 'C04', 'C07', 'C08', 'C19'],
             'R145: no call of lower/upper/casefold/title/capitalize/swapcase on a non-constant receiver in surface, _parse, _lexer, layout, codec, _format, constant, graph, transform, model.'),
    'R144': (['C12', 'C11'],
             'R144: in _dereify_agenda (and its helpers) every append of RoleAlignment(...) counts one, every extend that keeps the RoleAlignment markers counts one per triple it walks; the heaviest CFG path through one round stays below two.'),
    'R143': (['C11', 'C12', 'C16', 'C05'],
             'R143: every groupby call: its data is sorted(..., key=<same key>) or sorted in place with that key; otherwise, when the groups end up in a dict, the loss of non-adjacent items is reported.'),
    'R141': (['C17', 'C13', 'C16'],
             'R141: for every class with __setstate__, each attribute it rebuilds with a call is compared with the call that builds the same attribute in __init__ (called names and literals must agree).'),
    'R140': (['C16', 'C20', 'C15', 'C12', 'C11', 'C17'],
             'R140: every `for` over a container or its keys()/items()/values() view whose body deletes from / adds to that same container: no CFG path leads from the resizing statement back to the loop head.'),
    'R139': (['C10', 'C05', 'C20', 'C12', 'C02', 'C07'],
             'R139: for every loop, a name set to the constant True in the body, initialised False before the loop and read after it, must not also be assigned a computed value in the body on a path that follows the raise through the loop head (CFG path search).'),
    'R138': (['C04', 'C14', 'C02', 'C16'],
             'R138: reaching definitions - the role handed to is_role_inverted / canonicalize_role / has_role is never the raw loop variable of a loop over tree branches; it has passed _process_role or partition("~").'),
    'R137': (['C11', 'C12'],
             'R137: in _dereify_agenda the exchange of the two relations of a collapsed node is guarded by get_pushed_variable(g, second) == var (branch facts), not by appears_inverted.'),
    'R149': (['C15', 'C17', 'C12'],
             'R149: in every in-place operator method (__ior__, __isub__, ...) no attribute of the right operand is read after the same attribute of self was destructively changed (slice assignment, del, clear/remove/pop, re-binding): the operands may be one object.'),
    'R108': (['C03', 'C05', 'C12', 'C20'], 'R108: in configure no path leads from the _find_next call back to the loop head without the list of passed-over data having been used.'),
    'R87': (['C20', 'C17'], 'R87: the option tables main() builds once are only read by process/_process_in/_process_out (alias-following over what is unpacked from them).'),
    'R86': (['C01', 'C07', 'C08', 'C09', 'C19', 'C20', 'C11', 'C12', 'C17'], 'R86: an argument annotated as Iterable / Iterator / file is walked at most once on every path (a second walk of a file or generator finds nothing).'),
}
for _r, (_props, _text) in _EXTRA.items():
    for _pid in _props:
        if _pid in PROPS and _r not in PROPS[_pid]['rules']:
            PROPS[_pid]['rules'].append(_r)
            PROPS[_pid]['explanation'] += ' ' + _text
