"""Property -> rules table.  Only properties whose rules are all implemented appear in PROPS;
MANIFEST.json is generated from this table by tools/gen_manifest.py."""

TRUST_RE = ("CPython's regular-expression parser (re._parser) and its documented matching semantics for the "
            "constructs penman uses: ordered alternation, greedy repeats, character classes, '.', '$'")

PROPS = {}

PROPS['C08'] = {
    'level': 'proof',
    'rules': ['R8a', 'R8b', 'R8c', 'R8d', 'R8e', 'R8f', 'R23lex', 'R6'],
    'technique': 'regex-AST to interval automata: emptiness / equivalence / first-set decisions on the token '
                 'patterns folded from the source, plus def-use provenance and must-pass-through on _lex',
    'explanation': (
        'All clauses of C08 are decided from the source of penman/_lexer.py, for both lexing patterns. '
        'PATTERNS and the two _compile(...) constants are constant-folded from the syntax tree, parsed with '
        "CPython's regex parser, turned into interval NFAs over all 1,114,112 code points and decided by our "
        'own subset/product constructions: R8a no inner capture group so m.lastgroup is the class name; R8b no '
        'nullable alternative (tokens are non-empty and do not overlap); R8c no alternative can start with one '
        'of the six ASCII blanks and the catch-all is a single character whose complement is exactly those six '
        '(so exactly they, and nothing else, are skipped); R8d every class language equals the documented '
        'lexical production (witness string on a difference); R8e per first character the ordered list of '
        'alternatives tried is the documented one and every alternative is greedy and 1-unambiguous so the '
        'match is the longest member; R8f delimiters are outside SYMBOL and the ROLE tail. R23lex: in _lex '
        'every line reaches regex.finditer(line), every match is yielded, and the Token fields are '
        'm.lastgroup, the whole match, the index of enumerate(lines, 1), m.start() and the line.'),
    'not_decided': 'Nothing of the statement. The PEG excludes CR/VT/FF inside strings, the statement allows them: '
                   'recorded in evidence, not armed.',
    'trusted_base': [TRUST_RE, 'pv/rx.py (our automata constructions)', 'spec/lexical.json (transcription of docs/notation.rst)',
                     'lines contain LF only as their last character'],
    'level_text': 'Every clause is an exact decision on regex syntax trees (all strings, both patterns) or a '
                  'def-use/path fact on _lex; nothing is sampled.',
    'design_ref': 'DESIGN.md section 5 (C08), rules R8a-f, R23',
}

PROPS['C18'] = {
    'level': 'proof',
    'rules': ['R34', 'R8e', 'R14g_constant'],
    'technique': 'language inclusion of the JSON-string image of quote in the STRING token language (automata), '
                 'call-shape and guard-set checks on evaluate/type, module-state effects analysis',
    'explanation': (
        'quote: every return is "" under `is None` or json.dumps(str(x)) of the argument with default options '
        '(R34), and the language J that json.dumps emits for a str is shown to be inside L(STRING) for both '
        'patterns, prefix-free with respect to STRING, free of every line terminator, and to start with the '
        'character that dispatches to STRING first (R8e): hence one string token for every Python string. '
        'evaluate: the constant text reaches json.loads unchanged, with parse_constant=str and no other hook, '
        'guarded against the literal names true/false/null, inside a JSONDecodeError handler, followed by the '
        'isinstance filter raising ConstantError; type derives from evaluate and the type map is the documented '
        'one. R14g: none of quote/evaluate/type reads or writes mutable module state (results depend on the '
        'argument only).'),
    'not_decided': 'That int/float come out only for JSON number syntax rests on the json module (trusted); atom texts '
                   'with surrounding whitespace cannot come from the lexer (R8c).',
    'trusted_base': [TRUST_RE, 'pv/rx.py', "the json module's documented escaping (CPython json.encoder.ESCAPE_ASCII) and "
                     'that json.loads inverts json.dumps on strings'],
    'level_text': 'The quote clause is a proof over all Python strings (language inclusion); the evaluate/type clauses '
                  'are exact call-shape facts whose semantics rests on the json module.',
    'design_ref': 'DESIGN.md section 5 (C18), rules R34, R8i',
}

NOT_APPLICABLE = {
    'C06': 'Every clause quantifies over marker histories and is carried by the data-dependent search in '
           'layout.configure (deferred triples, improvised sites, a progress test that needs a ranking argument); the '
           'implicit raise sites (nodemap[var], node[1] on a possibly-None entry) cannot be discharged without value '
           'invariants, so no sound static argument is in reach (DESIGN.md section 5, C06).',
}


def _p(pid, rules, technique, explanation, not_decided, level_text, trusted=None, level='other', thorough_rules=None):
    PROPS[pid] = {
        'level': level, 'rules': rules, 'technique': technique, 'explanation': explanation,
        'not_decided': not_decided, 'level_text': level_text, 'trusted_base': trusted or [],
        'design_ref': f'DESIGN.md section 5 ({pid})', 'thorough_rules': thorough_rules or [],
    }


_p('C02', ['R1', 'R36', 'R49', 'R28', 'R29', 'R5', 'R12'], 'abstract interpretation of two parallel lists; must-pass-through / at-most-once path checks on CFGs',
   'TODO', 'TODO', 'TODO')
_p('C03', ['R4', 'R50', 'R51', 'R12', 'R28', 'R29', 'R64', 'R67'], 'interprocedural structural type inference + truthiness-context lint', 'TODO', 'TODO', 'TODO')
_p('C04', ['R5', 'R1b', 'R8h', 'R11', 'R49', 'R51', 'R58', 'R29'], 'call-graph reachability + class-override scan; typed lookup lint; regex alphabets', 'TODO', 'TODO', 'TODO')
_p('C05', ['R26', 'R27', 'R47', 'R23model', 'R14', 'R50'], 'symbolic list-shape evaluation; class-hierarchy check; typestate over sort/top', 'TODO', 'TODO', 'TODO')
_p('C07', ['R19', 'R9', 'R16', 'R43', 'R18', 'R35', 'R10', 'R6', 'R23lex'], 'typestate dataflow on CFGs; call-result-use lint; provenance', 'TODO', 'TODO', 'TODO')
_p('C09', ['R6', 'R37', 'R12', 'R45'], 'splitter table + regex language equivalence', 'TODO', 'TODO', 'TODO')
_p('C10', ['R11', 'R30', 'R31', 'R52'], 'typed lookup lint; loop-shape path checks; may-analysis of freshness', 'TODO', 'TODO', 'TODO')
_p('C11', ['R31', 'R3', 'R38', 'R33', 'R36', 'R44', 'R62', 'R63'], 'may-analysis of freshness; constructor-argument lint; control-dependence facts', 'TODO', 'TODO', 'TODO')
_p('C12', ['R2', 'R3', 'R31', 'R14', 'R53', 'R24', 'R33', 'R63', 'R65', 'R66'], 'typed partial-map access lint with dominating guards', 'TODO', 'TODO', 'TODO')
_p('C13', ['R29', 'R28', 'R23model', 'R24m', 'R30', 'R48'], 'propositional equivalence of sibling predicates; ordering on CFG paths', 'TODO', 'TODO', 'TODO')
_p('C14', ['R2', 'R1', 'R36', 'R44', 'R61', 'R66'], 'partial-map lint; path checks on the context stack simulation', 'TODO', 'TODO', 'TODO')
_p('C15', ['R21', 'R22', 'R23top', 'R39', 'R14', 'R54', 'R55', 'R57'], 'predicate extraction + truth table; guard-before-store may-analysis', 'TODO', 'TODO', 'TODO')
_p('C16', ['R40', 'R28', 'R29', 'R7'], 'loop-carried status accumulation dataflow; must-pass-through', 'TODO', 'TODO', 'TODO')
_p('C17', ['R14', 'R13', 'R15', 'R60', 'R61'], 'set-iteration classification on inferred types; comparison lint', 'TODO', 'TODO', 'TODO')
_p('C19', ['R10', 'R9', 'R41', 'R16', 'R56', 'R37', 'R18', 'R59', 'R8d', 'R8e'], 'token-class coverage via reaching definitions', 'TODO', 'TODO', 'TODO')
_p('C20', ['R24', 'R25', 'R12', 'R42', 'R7', 'R13', 'R20', 'R31', 'R38', 'R2', 'R53'], 'CFG order / guard facts / argument threading', 'TODO', 'TODO', 'TODO')
_p('C01', ['R20', 'R8g', 'R8f', 'R8d', 'R8e', 'R45', 'R23lex'], 'option-taint abstract interpretation of the formatter; regex automata for adjacency', 'TODO', 'TODO', 'TODO')
