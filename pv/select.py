"""Selection summaries: for a function that returns a list filtered out of a base sequence, the
predicate (formula over atoms mentioning the canonical element `t`) an element must satisfy to be in
the result.  Comprehensions, list(...), accumulate-loops (with `continue` guards), single-definition
temporaries, calls to other selecting methods and small boolean helper functions in the filter are
all reduced to the same form, so that equivalent layouts give the same summary.

An alternative is (path condition, predicate, base source text, element kinds)."""
from __future__ import annotations

import ast
import copy
from typing import Callable, Dict, List, Optional, Tuple

from . import boolnorm as bn
from .resolve import expand, helper_returns, unique_def, view
from .src import AnalysisError, FuncInfo, norm, try_fold, walk_local

Alt = Tuple[object, object, str, Tuple[str, ...]]
T = 't'


class Selector:
    def __init__(self, ctx, nonnull: Optional[Callable[[ast.AST], bool]] = None, max_depth: int = 4):
        self.ctx = ctx
        self.nonnull = nonnull
        self.max_depth = max_depth

    # -- formulas ---------------------------------------------------------------------------
    def _inline_helpers(self, fi: FuncInfo, e: ast.AST) -> ast.AST:
        ctx = self.ctx
        me = self

        class R(ast.NodeTransformer):
            def visit_Call(self, n):
                self.generic_visit(n)
                if isinstance(n.func, ast.Name):
                    rs = helper_returns(ctx, fi, n)
                    if rs is not None and len(rs) == 1:
                        return rs[0]
                return n
        return R().visit(copy.deepcopy(e))

    def _expand_all_over_criteria(self, fi: FuncInfo, e: ast.AST, at: ast.AST) -> ast.AST:
        """all(BODY for I, V in L)  with  L = [(i, v) for i, v in enumerate((e0, e1, ...)) if v is not None]
        becomes  (e0 is None or BODY[I:=0, V:=e0]) and (e1 is None or BODY[I:=1, V:=e1]) and ..."""
        v = view(self.ctx, fi)

        class R(ast.NodeTransformer):
            def visit_Call(self2, n):
                self2.generic_visit(n)
                if not (isinstance(n.func, ast.Name) and n.func.id == 'all' and len(n.args) == 1 and isinstance(n.args[0], (ast.GeneratorExp, ast.ListComp))
                        and len(n.args[0].generators) == 1 and not n.args[0].generators[0].ifs):
                    return n
                g = n.args[0].generators[0]
                src = g.iter
                if isinstance(src, ast.Name):
                    d = unique_def(v, src.id, at)
                    if d is None:
                        return n
                    src = d
                if not (isinstance(src, ast.ListComp) and len(src.generators) == 1 and isinstance(src.generators[0].iter, ast.Call)
                        and norm(src.generators[0].iter.func) == 'enumerate' and len(src.generators[0].iter.args) == 1
                        and isinstance(src.generators[0].iter.args[0], ast.Tuple)):
                    return n
                g2 = src.generators[0]
                if not (isinstance(g2.target, ast.Tuple) and len(g2.target.elts) == 2 and isinstance(src.elt, ast.Tuple)
                        and [norm(x) for x in src.elt.elts] == [norm(x) for x in g2.target.elts]
                        and len(g2.ifs) == 1 and norm(g2.ifs[0]) == f'{norm(g2.target.elts[1])} is not None'
                        and isinstance(g.target, ast.Tuple) and len(g.target.elts) == 2):
                    return n
                iname, vname = norm(g.target.elts[0]), norm(g.target.elts[1])
                terms = []
                for k, ek in enumerate(g2.iter.args[0].elts):
                    class S(ast.NodeTransformer):
                        def visit_Name(self3, m):
                            if m.id == iname:
                                return ast.Constant(value=k)
                            if m.id == vname:
                                return copy.deepcopy(ek)
                            return m
                    body = S().visit(copy.deepcopy(n.args[0].elt))
                    terms.append(ast.BoolOp(op=ast.Or(), values=[ast.Compare(left=copy.deepcopy(ek), ops=[ast.Is()], comparators=[ast.Constant(value=None)]), body]))
                return ast.BoolOp(op=ast.And(), values=terms) if terms else ast.Constant(value=True)
        return R().visit(copy.deepcopy(e))

    def formula(self, fi: FuncInfo, e: ast.AST, at: ast.AST, subst: Dict[str, object]):
        e = self._expand_all_over_criteria(fi, e, at)
        e2 = expand(self.ctx, fi, e, at)
        e2 = self._inline_helpers(fi, e2)
        return bn.Abstractor(subst, nonnull=self.nonnull).formula(e2)

    # -- element binding -------------------------------------------------------------------
    @staticmethod
    def bind_target(target: ast.AST, subst: Dict[str, object]) -> Dict[str, object]:
        s = dict(subst)
        if isinstance(target, ast.Name):
            s[target.id] = ast.Name(id=T, ctx=ast.Load())
        elif isinstance(target, (ast.Tuple, ast.List)) and all(isinstance(x, ast.Name) for x in target.elts):
            for i, x in enumerate(target.elts):
                s[x.id] = ast.Subscript(value=ast.Name(id=T, ctx=ast.Load()), slice=ast.Constant(value=i), ctx=ast.Load())
        else:
            raise AnalysisError(f'selection: unsupported loop target {norm(target)}')
        return s

    @staticmethod
    def elt_kind(elt: ast.AST, target: ast.AST) -> str:
        if isinstance(target, ast.Name):
            if isinstance(elt, ast.Name) and elt.id == target.id:
                return 'same'
            if isinstance(elt, ast.Call) and len(elt.args) == 1 and isinstance(elt.args[0], ast.Starred) and not elt.keywords \
                    and isinstance(elt.args[0].value, ast.Name) and elt.args[0].value.id == target.id:
                return 'wrapped'
        if isinstance(target, (ast.Tuple, ast.List)):
            names = [norm(x) for x in target.elts]
            if isinstance(elt, ast.Tuple) and [norm(x) for x in elt.elts] == names:
                return 'same'
            if isinstance(elt, ast.Call) and [norm(x) for x in elt.args] == names and not elt.keywords:
                return 'wrapped'
        return f'other:{norm(elt)[:40]}'

    # -- expressions -----------------------------------------------------------------------
    def of_expr(self, fi: FuncInfo, e: ast.AST, at: ast.AST, subst: Dict[str, object], env: Dict[str, List[Alt]], depth: int = 0) -> List[Alt]:
        if depth > 8:
            raise AnalysisError('selection: expression nesting too deep')
        if isinstance(e, ast.Name):
            if e.id in env:
                return env[e.id]
            if e.id in fi.params and isinstance(subst.get(e.id), ast.Attribute):
                return [(True, True, norm(subst[e.id]), ())]         # a parameter the caller binds to an attribute (self.triples)
            d = unique_def(view(self.ctx, fi), e.id, at)
            if d is None:
                raise AnalysisError(f'{fi.fq}: selection: {e.id} has no single definition')
            return self.of_expr(fi, d, d, subst, env, depth + 1)
        if isinstance(e, ast.Attribute):
            return [(True, True, norm(e), ())]
        if isinstance(e, ast.Call) and isinstance(e.func, ast.Name) and e.func.id in ('list', 'tuple', 'iter') and len(e.args) == 1:
            return self.of_expr(fi, e.args[0], at, subst, env, depth + 1)
        if isinstance(e, ast.Call) and norm(e.func) in ('starmap', 'itertools.starmap', 'map') and len(e.args) == 2 and isinstance(e.args[0], ast.Name):
            inner = self.of_expr(fi, e.args[1], at, subst, env, depth + 1)
            return [(c, p, src, kinds + ('wrapped',)) for c, p, src, kinds in inner]
        if isinstance(e, (ast.ListComp, ast.GeneratorExp)) and len(e.generators) == 1:
            g = e.generators[0]
            inner = self.of_expr(fi, g.iter, at, subst, env, depth + 1)
            s2 = self.bind_target(g.target, subst)
            pred = bn.mk_and([self.formula(fi, c, at, s2) for c in g.ifs])
            kind = self.elt_kind(e.elt, g.target)
            return [(c, bn.mk_and([p, pred]), src, kinds + (kind,)) for c, p, src, kinds in inner]
        if isinstance(e, ast.Call):
            ts = self.ctx.cg.resolve_call(e, fi)
            fs = [t.func for t in ts if t.kind == 'func']
            if len(fs) == 1 and depth < self.max_depth:
                h = fs[0]
                pos = h.positional[1:] if h.is_method() and 'staticmethod' not in h.decorators() else h.positional
                sub: Dict[str, object] = {}
                ab = bn.Abstractor(subst)
                for p, a in zip(pos, e.args):
                    a2 = ab.rewrite(expand(self.ctx, fi, a, at))
                    sub[p] = bn.Abstractor.NONE if isinstance(a2, ast.Constant) and a2.value is None else a2
                for kw in e.keywords:
                    a2 = ab.rewrite(expand(self.ctx, fi, kw.value, at))
                    sub[kw.arg] = bn.Abstractor.NONE if isinstance(a2, ast.Constant) and a2.value is None else a2
                a = h.node.args
                defaults = dict(zip([x.arg for x in (a.posonlyargs + a.args)][::-1], a.defaults[::-1]))
                for p in pos:
                    if p not in sub and isinstance(defaults.get(p), ast.Constant) and defaults[p].value is None:
                        sub[p] = bn.Abstractor.NONE
                return self.of_function(h, sub)
        raise AnalysisError(f'{fi.fq}: selection: unsupported expression {norm(e)[:60]}')

    # -- functions -------------------------------------------------------------------------
    def of_function(self, fi: FuncInfo, subst: Dict[str, object]) -> List[Alt]:
        body = [s for s in fi.node.body if not (isinstance(s, ast.Expr) and isinstance(s.value, ast.Constant))]
        results: List[Alt] = []

        def walk_gen(stmts: List[ast.stmt]):
            # a generator whose body is one loop yielding selected elements
            loops = [st for st in stmts if isinstance(st, ast.For)]
            others = [st for st in stmts if not isinstance(st, (ast.For, ast.Assign, ast.AnnAssign, ast.Expr, ast.Pass))]
            if len(loops) != 1 or others or any(isinstance(n, ast.Return) and n.value is not None for n in walk_local(fi.node)):
                raise AnalysisError(f'{fi.fq}: selection: generator is not a single filtering loop')
            env: Dict[str, List[Alt]] = {'$yield': [(True, False, '', ())]}
            self._loop(fi, loops[0], subst, env)
            for c, p, src, kinds in env['$yield']:
                results.append((c, p, src, kinds))

        def walk(stmts: List[ast.stmt], cond, env: Dict[str, List[Alt]], subst=subst):
            # `subst` also carries the plain locals bound on this path (variables = self.variables() / {target} ...), so that a
            # name bound differently on two branches is resolved per branch
            for i, st in enumerate(stmts):
                if isinstance(st, ast.If):
                    f = self.formula(fi, st.test, st.test, subst)
                    rest = stmts[i + 1:]
                    if f is not False:
                        walk(st.body + rest, bn.mk_and([cond, f]), dict(env), dict(subst))
                    if f is not True:
                        walk(st.orelse + rest, bn.mk_and([cond, bn.mk_not(f)]), dict(env), dict(subst))
                    return
                if isinstance(st, ast.Return):
                    if st.value is None:
                        raise AnalysisError(f'{fi.fq}: selection: bare return')
                    for c, p, src, kinds in self.of_expr(fi, st.value, st, subst, env):
                        results.append((bn.mk_and([cond, c]), p, src, kinds))
                    return
                if isinstance(st, ast.Raise):
                    return
                if isinstance(st, (ast.Assign, ast.AnnAssign)):
                    tgt = st.targets[0] if isinstance(st, ast.Assign) else st.target
                    val = st.value
                    if isinstance(tgt, ast.Name) and isinstance(val, ast.List) and not val.elts:
                        env[tgt.id] = [(True, False, '', ())]       # empty accumulator: selects nothing yet
                    elif isinstance(tgt, ast.Name):
                        try:
                            new = self.of_expr(fi, val, st, subst, env)     # may read the old binding of the same name
                        except AnalysisError:
                            new = None                              # not a selection (e.g. variables = self.variables())
                        env.pop(tgt.id, None)
                        if new is not None:
                            env[tgt.id] = new
                        elif val is not None and not any(isinstance(x, (ast.Yield, ast.Await, ast.NamedExpr, ast.Lambda)) for x in ast.walk(val)):
                            # a plain local: substitute it (with what is known on this path) wherever it is read later on this path
                            subst = dict(subst)
                            subst[tgt.id] = bn.Abstractor(subst).rewrite(val)
                    continue
                if isinstance(st, ast.For):
                    self._loop(fi, st, subst, env)
                    continue
                if isinstance(st, (ast.Expr, ast.Pass)):
                    continue
                raise AnalysisError(f'{fi.fq}: selection: unsupported statement {norm(st)[:50]}')
            raise AnalysisError(f'{fi.fq}: selection: a path falls off the end')
        is_gen = any(isinstance(n, (ast.Yield, ast.YieldFrom)) for n in walk_local(fi.node))
        if is_gen:
            if any(isinstance(n, ast.YieldFrom) for n in walk_local(fi.node)):
                raise AnalysisError(f'{fi.fq}: selection: yield from')
            walk_gen(body)
        else:
            walk(body, True, {})
        return [r for r in results if r[0] is not False]

    def loop_predicates(self, fi: FuncInfo, loop: ast.For, subst) -> Dict[str, Tuple[object, str]]:
        """{accumulator name: (formula over the canonical element under which the element is appended, element kind)}"""
        s2 = self.bind_target(loop.target, subst)
        appended: Dict[str, list] = {}

        def walk(stmts, cond):
            for i, st in enumerate(stmts):
                if isinstance(st, ast.If):
                    f = self.formula(fi, st.test, st.test, s2)
                    rest = stmts[i + 1:]
                    walk(st.body + rest, bn.mk_and([cond, f]))
                    walk(st.orelse + rest, bn.mk_and([cond, bn.mk_not(f)]))
                    return
                if isinstance(st, ast.Continue):
                    return
                if isinstance(st, ast.Expr) and isinstance(st.value, ast.Call) and isinstance(st.value.func, ast.Attribute) \
                        and st.value.func.attr == 'append' and isinstance(st.value.func.value, ast.Name) and len(st.value.args) == 1:
                    acc = st.value.func.value.id
                    appended.setdefault(acc, []).append((cond, self.elt_kind(st.value.args[0], loop.target)))
                    continue
                if isinstance(st, ast.Expr) and isinstance(st.value, ast.Yield) and st.value.value is not None:
                    # a generator: yielding an element is appending it to the (implicit) result
                    appended.setdefault('$yield', []).append((cond, self.elt_kind(st.value.value, loop.target)))
                    continue
                if isinstance(st, ast.Pass):
                    continue
                raise AnalysisError(f'{fi.fq}: selection: unsupported statement in loop {norm(st)[:50]}')
        walk(loop.body, True)
        if loop.orelse:
            raise AnalysisError(f'{fi.fq}: selection: for-else')
        out = {}
        for acc, items in appended.items():
            kinds = {k for _, k in items}
            if len(kinds) != 1:
                raise AnalysisError(f'{fi.fq}: selection: mixed element kinds appended to {acc}')
            out[acc] = (bn.mk_or([c for c, _ in items]), next(iter(kinds)))
        return out

    def path_condition(self, fi: FuncInfo, loop: ast.For, stmt: ast.AST, subst) -> object:
        """Formula (over the canonical element) under which `stmt`, somewhere in the body of `loop`, is executed in an
        iteration: if/else nesting and `continue` guards are followed; any other jump gives up."""
        s2 = self.bind_target(loop.target, subst)
        for n in ast.walk(loop):
            if isinstance(n, ast.Assign) and isinstance(n.targets[0], ast.Tuple) and isinstance(loop.target, ast.Name) and norm(n.value) == loop.target.id:
                for i, x in enumerate(n.targets[0].elts):
                    if isinstance(x, ast.Name):
                        s2[x.id] = ast.Subscript(value=ast.Name(id=T, ctx=ast.Load()), slice=ast.Constant(value=i), ctx=ast.Load())
        found = []

        def walk(stmts, cond):
            for i, st in enumerate(stmts):
                if st is stmt or any(x is stmt for x in ast.walk(st)) and not isinstance(st, ast.If):
                    found.append(cond)
                    return
                if isinstance(st, ast.If):
                    f = self.formula(fi, st.test, st.test, s2)
                    rest = stmts[i + 1:]
                    walk(st.body + rest, bn.mk_and([cond, f]))
                    walk(st.orelse + rest, bn.mk_and([cond, bn.mk_not(f)]))
                    return
                if isinstance(st, ast.Continue):
                    return
                if isinstance(st, (ast.Break, ast.Return, ast.Raise)):
                    raise AnalysisError(f'{fi.fq}: path condition: jump out of the loop')
        walk(loop.body, True)
        if not found:
            raise AnalysisError(f'{fi.fq}: path condition: statement not found in the loop body')
        return bn.mk_or(found)

    def _loop(self, fi: FuncInfo, loop: ast.For, subst, env):
        inner = self.of_expr(fi, loop.iter, loop, subst, env)
        for acc, (pred, kind) in self.loop_predicates(fi, loop, subst).items():
            if acc not in env or env[acc] != [(True, False, '', ())]:
                raise AnalysisError(f'{fi.fq}: selection: {acc} is not a fresh accumulator')
            env[acc] = [(c, bn.mk_and([p, pred]), src, k0 + (kind,)) for c, p, src, k0 in inner]
