"""E6 - token-kind abstract interpretation of the parser and its product with a reference recogniser.

The functions reachable from parse / iterparse - *including the methods of TokenIterator* - are
interpreted from their syntax trees over an abstract domain in which a token is only its index and
its kind; token texts, line numbers and offsets are symbols.  Input is not a string: it is a lazily
grown sequence of token kinds, forked over all nine kinds plus end-of-input whenever the
interpreted code asks the (abstract) lexer generator for the next token.  Conditions that do not
depend on token kinds fork both ways.  Every maximal run yields an observation (trees yielded, final
status, and on DecodeError whether its lineno/offset are those of a token or the end of the last
token), which is compared with the observation of a hand-written recogniser of the documented
grammar (reference()).  Nothing here executes penman: its source is data for the interpreter.
"""
from __future__ import annotations

import ast
from typing import Dict, List, Optional, Tuple

from .callgraph import CallGraph
from .src import AnalysisError, ClassInfo, FuncInfo, Repo, norm, walk_local

KINDS = ('COMMENT', 'STRING', 'LPAREN', 'RPAREN', 'SLASH', 'ROLE', 'SYMBOL', 'ALIGNMENT', 'UNEXPECTED')
EOF = 'EOF'


# ---------------------------------------------------------------------------------------------
# abstract values
# ---------------------------------------------------------------------------------------------
class V:
    pass


class C(V):                       # python constant
    __slots__ = ('v',)

    def __init__(self, v):
        self.v = v

    def __repr__(self):
        return f'C({self.v!r})'


class Tok(V):                     # token number i of the input
    __slots__ = ('i',)

    def __init__(self, i):
        self.i = i

    def __repr__(self):
        return f'Tok({self.i})'


class TAttr(V):                   # text / lineno / offset / line of token i
    __slots__ = ('i', 'name')

    def __init__(self, i, name):
        self.i, self.name = i, name

    def __repr__(self):
        return f'tok{self.i}.{self.name}'


class Sym(V):                     # symbolic arithmetic: ('add', a, b) / ('len', a)
    __slots__ = ('op', 'args')

    def __init__(self, op, *args):
        self.op, self.args = op, args

    def __repr__(self):
        return f'{self.op}{self.args}'


class Ref(V):                     # heap object
    __slots__ = ('oid',)

    def __init__(self, oid):
        self.oid = oid

    def __repr__(self):
        return f'Ref({self.oid})'


class Tup(V):
    __slots__ = ('items',)

    def __init__(self, items):
        self.items = tuple(items)

    def __repr__(self):
        return f'Tup{self.items}'


class Bound(V):                   # bound method / function value
    __slots__ = ('fi', 'self')

    def __init__(self, fi, self_):
        self.fi, self.self = fi, self_

    def __repr__(self):
        return f'Bound({self.fi.fq}, {self.self!r})'


class DictV(V):                   # a module-level constant dict (dispatch table): python key -> V
    __slots__ = ('map',)

    def __init__(self, m):
        self.map = dict(m)

    def __repr__(self):
        return f'Dict{sorted(map(repr, self.map))}'


class GenV(V):                    # the lexer's token generator
    def __repr__(self):
        return 'Gen'


class Unk(V):
    def __repr__(self):
        return '?'


UNK = Unk()
GEN = GenV()
TOKEN_FIELDS = ('type', 'text', 'lineno', 'offset', 'line')

BUILTIN_EXC_PARENTS = {
    'StopIteration': ('StopIteration', 'Exception', 'BaseException'),
    'ValueError': ('ValueError', 'Exception', 'BaseException'),
    'KeyError': ('KeyError', 'LookupError', 'Exception', 'BaseException'),
    'IndexError': ('IndexError', 'LookupError', 'Exception', 'BaseException'),
    'TypeError': ('TypeError', 'Exception', 'BaseException'),
    'AttributeError': ('AttributeError', 'Exception', 'BaseException'),
    'RuntimeError': ('RuntimeError', 'Exception', 'BaseException'),
    'AssertionError': ('AssertionError', 'Exception', 'BaseException'),
}


class State:
    __slots__ = ('seq', 'heap', 'gptr', 'yields', 'steps')

    def __init__(self, seq=(), heap=None, gptr=0, yields=(), steps=0):
        self.seq = seq
        self.heap = heap if heap is not None else {}
        self.gptr = gptr
        self.yields = yields
        self.steps = steps

    def fork(self) -> 'State':
        return State(self.seq, {k: dict(v) for k, v in self.heap.items()}, self.gptr, self.yields, self.steps)

    def key(self):
        return (self.seq, self.gptr, len(self.yields), tuple(sorted((k, tuple(sorted((f, repr(v)) for f, v in d.items())))
                                                                   for k, d in self.heap.items())))


class Exc:
    """A raised exception value."""

    def __init__(self, cls: str, ref: Optional[Ref] = None):
        self.cls = cls
        self.ref = ref


class Hang(Exception):
    pass


class Interp:
    def __init__(self, repo: Repo, cg: CallGraph, max_tokens: int, max_depth: int, step_limit: int = 4000):
        self.repo = repo
        self.cg = cg
        self.L = max_tokens
        self.D = max_depth
        self.step_limit = step_limit
        self.lex_fq = 'penman._lexer:lex'
        self.tokit = repo.cls('penman._lexer', 'TokenIterator')
        self.n_paths = 0
        self.n_steps = 0
        self.unknown_constructs: Dict[str, int] = {}
        self.kinds = KINDS

    # -- helpers ---------------------------------------------------------------------------
    def depth_of(self, seq) -> int:
        d = 0
        for k in seq:
            if k == 'LPAREN':
                d += 1
            elif k == 'RPAREN':
                d = max(0, d - 1)
        return d

    def next_token(self, st: State) -> List[Tuple[Optional[int], State]]:
        """The abstract lexer generator: [(token index or None at end of input, state)]"""
        if st.gptr < len(st.seq):
            if st.seq[st.gptr] == EOF:
                return [(None, st)]
            s2 = st.fork()
            s2.gptr += 1
            return [(st.gptr, s2)]
        out = []
        n_real = len([k for k in st.seq if k != EOF])
        options = list(self.kinds) if n_real < self.L else []
        for k in options + [EOF]:
            if k == 'LPAREN' and self.depth_of(st.seq) >= self.D:
                continue
            s2 = st.fork()
            s2.seq = st.seq + (k,)
            if k == EOF:
                out.append((None, s2))
            else:
                s2.gptr += 1
                out.append((st.gptr, s2))
        return out

    def kind_of(self, st: State, i: int) -> str:
        return st.seq[i]

    def exc_matches(self, exc: Exc, handler_type: Optional[ast.AST], module) -> bool:
        if handler_type is None:
            return True
        names = [handler_type] if not isinstance(handler_type, ast.Tuple) else list(handler_type.elts)
        for n in names:
            nm = n.attr if isinstance(n, ast.Attribute) else (n.id if isinstance(n, ast.Name) else None)
            if nm is None:
                continue
            if nm in BUILTIN_EXC_PARENTS.get(exc.cls, ()):
                return True
            r = self.repo.resolve_name(module, nm) if isinstance(n, ast.Name) else ('unknown',)
            if r[0] == 'class':
                c = self._class_by_name(exc.cls)
                if c is not None and c.is_subclass_of(r[2]):
                    return True
            if nm == exc.cls:
                return True
            if nm in ('Exception', 'BaseException'):
                return True
        return False

    def _class_by_name(self, name: str) -> Optional[ClassInfo]:
        for c in self.repo.all_classes():
            if c.name == name:
                return c
        return None

    # -- function calls --------------------------------------------------------------------
    def call(self, fi: FuncInfo, selfv: Optional[V], args: List[V], kwargs: Dict[str, V], st: State, stack: int):
        """-> list of (('ret', value) | ('exc', Exc), state)"""
        if stack > 4 * self.D + 12:
            raise AnalysisError('E6: interpreter recursion deeper than the nesting bound allows')
        env: Dict[str, V] = {}
        pos = list(fi.positional)
        if selfv is not None and pos:
            env[pos[0]] = selfv
            pos = pos[1:]
        a = fi.node.args
        for i, v in enumerate(args):
            if i < len(pos):
                env[pos[i]] = v
            elif a.vararg is not None:
                pass
        if a.vararg is not None:
            env[a.vararg.arg] = Tup(args[len(pos):])
        for k, v in kwargs.items():
            env[k] = v
        # defaults
        defaults = a.defaults
        names = [x.arg for x in a.posonlyargs + a.args]
        for nm, d in zip(names[len(names) - len(defaults):], defaults):
            if nm not in env:
                env[nm] = C(d.value) if isinstance(d, ast.Constant) else UNK
        for nm, d in zip([x.arg for x in a.kwonlyargs], a.kw_defaults):
            if nm not in env:
                env[nm] = C(d.value) if isinstance(d, ast.Constant) else UNK
        is_gen = any(isinstance(n, (ast.Yield, ast.YieldFrom)) for n in ast.walk(fi.node)
                     if not isinstance(n, (ast.Lambda,)))
        outs = []
        for kind, val, env2, st2 in self.block(fi, fi.node.body, env, st, stack):
            if kind in ('next', 'return'):
                outs.append((('ret', val if kind == 'return' else C(None)), st2))
            elif kind == 'raise':
                outs.append((('exc', val), st2))
            else:
                raise AnalysisError(f'E6: {kind} escaped a function body')
        return outs

    # -- statements ------------------------------------------------------------------------
    def block(self, fi, stmts, env, st, stack):
        """-> list of (kind, value, env, state); kind in next/return/raise/break/continue"""
        results = [('next', None, env, st)]
        for s in stmts:
            new = []
            for kind, val, e, t in results:
                if kind != 'next':
                    new.append((kind, val, e, t))
                else:
                    new.extend(self.stmt(fi, s, e, t, stack))
            results = self.dedupe(new) if len(new) > 1 else new
        return results

    def dedupe(self, results):
        """Paths that differ only in the outcome of conditions on unknown values and reach the same abstract
        state are one path."""
        seen = set()
        out = []
        for kind, val, e, t in results:
            k = (kind, repr(val) if not isinstance(val, Exc) else ('exc', val.cls, repr(val.ref)),
                 tuple(sorted((n, repr(v)) for n, v in e.items())), t.key())
            if k in seen:
                continue
            seen.add(k)
            out.append((kind, val, e, t))
        return out

    def stmt(self, fi, s, env, st, stack):
        st.steps += 1
        self.n_steps += 1
        if st.steps > self.step_limit:
            raise Hang()
        if isinstance(s, ast.Expr):
            if isinstance(s.value, ast.Constant):
                return [('next', None, env, st)]
            out = []
            for r, e2, t2 in self.expr(fi, s.value, env, st, stack):
                out.append(('raise', r, e2, t2) if isinstance(r, Exc) else ('next', None, e2, t2))
            return out
        if isinstance(s, (ast.Assign, ast.AnnAssign)):
            if isinstance(s, ast.AnnAssign) and s.value is None:
                return [('next', None, env, st)]
            out = []
            targets = s.targets if isinstance(s, ast.Assign) else [s.target]
            for r, e2, t2 in self.expr(fi, s.value, env, st, stack):
                if isinstance(r, Exc):
                    out.append(('raise', r, e2, t2))
                    continue
                e3 = dict(e2)
                t3 = t2
                for tg in targets:
                    t3 = self.assign(fi, tg, r, e3, t3)
                out.append(('next', None, e3, t3))
            return out
        if isinstance(s, ast.AugAssign):
            out = []
            for r, e2, t2 in self.expr(fi, s.value, env, st, stack):
                if isinstance(r, Exc):
                    out.append(('raise', r, e2, t2))
                    continue
                e3 = dict(e2)
                if isinstance(s.target, ast.Name):
                    cur = e3.get(s.target.id, UNK)
                    if isinstance(cur, C) and isinstance(r, C) and isinstance(s.op, (ast.BitOr, ast.Add)):
                        try:
                            e3[s.target.id] = C(cur.v | r.v if isinstance(s.op, ast.BitOr) else cur.v + r.v)
                        except TypeError:
                            e3[s.target.id] = UNK
                    else:
                        e3[s.target.id] = UNK
                out.append(('next', None, e3, t2))
            return out
        if isinstance(s, ast.Return):
            if s.value is None:
                return [('return', C(None), env, st)]
            out = []
            for r, e2, t2 in self.expr(fi, s.value, env, st, stack):
                out.append(('raise', r, e2, t2) if isinstance(r, Exc) else ('return', r, e2, t2))
            return out
        if isinstance(s, ast.Raise):
            if s.exc is None:
                cur = env.get('$exc')
                if cur is None:
                    raise AnalysisError('E6: bare raise outside handler')
                return [('raise', cur, env, st)]
            out = []
            for r, e2, t2 in self.expr(fi, s.exc, env, st, stack):
                if isinstance(r, Exc):
                    out.append(('raise', r, e2, t2))
                elif isinstance(r, Ref) and t2.heap[r.oid].get('$class') is not None:
                    out.append(('raise', Exc(t2.heap[r.oid]['$class'], r), e2, t2))
                elif isinstance(r, C) and isinstance(r.v, str) and r.v in BUILTIN_EXC_PARENTS:
                    out.append(('raise', Exc(r.v), e2, t2))
                else:
                    out.append(('raise', Exc('UnknownException'), e2, t2))
            return out
        if isinstance(s, ast.If):
            out = []
            for truth, e2, t2 in self.cond(fi, s.test, env, st, stack):
                if isinstance(truth, Exc):
                    out.append(('raise', truth, e2, t2))
                elif truth:
                    out.extend(self.block(fi, s.body, e2, t2, stack))
                else:
                    out.extend(self.block(fi, s.orelse, e2, t2, stack))
            return out
        if isinstance(s, ast.While):
            return self.loop_while(fi, s, env, st, stack, 0)
        if isinstance(s, ast.For):
            # loops over unknown iterables: zero or one abstract iteration (no token-level state in penman's)
            out = []
            for r, e2, t2 in self.expr(fi, s.iter, env, st, stack):
                if isinstance(r, Exc):
                    out.append(('raise', r, e2, t2))
                    continue
                out.append(('next', None, e2, t2))
                e3 = dict(e2)
                self.assign(fi, s.target, UNK, e3, t2)
                for kind, val, e4, t4 in self.block(fi, s.body, e3, t2.fork(), stack):
                    if kind in ('break', 'continue', 'next'):
                        if t4.key() != t2.key():
                            raise AnalysisError(f'E6: for-loop over an unknown iterable changes token state in {fi.fq}')
                        continue
                    out.append((kind, val, e4, t4))
            return out
        if isinstance(s, ast.Try):
            out = []
            for kind, val, e2, t2 in self.block(fi, s.body, env, st, stack):
                if kind == 'raise':
                    handled = False
                    for h in s.handlers:
                        if self.exc_matches(val, h.type, fi.module):
                            e3 = dict(e2)
                            e3['$exc'] = val
                            if h.name:
                                e3[h.name] = val.ref if val.ref is not None else UNK
                            for k2, v2, e4, t4 in self.block(fi, h.body, e3, t2, stack):
                                e4 = dict(e4)
                                e4.pop('$exc', None)
                                out.append((k2, v2, e4, t4))
                            handled = True
                            break
                    if not handled:
                        out.append((kind, val, e2, t2))
                elif kind == 'next' and s.orelse:
                    out.extend(self.block(fi, s.orelse, e2, t2, stack))
                else:
                    out.append((kind, val, e2, t2))
            if s.finalbody:
                final = []
                for kind, val, e2, t2 in out:
                    for k2, v2, e3, t3 in self.block(fi, s.finalbody, e2, t2, stack):
                        final.append((kind, val, e3, t3) if k2 == 'next' else (k2, v2, e3, t3))
                out = final
            return out
        if isinstance(s, ast.Break):
            return [('break', None, env, st)]
        if isinstance(s, ast.Continue):
            return [('continue', None, env, st)]
        if isinstance(s, (ast.Pass, ast.Global, ast.Nonlocal, ast.Import, ast.ImportFrom, ast.FunctionDef, ast.ClassDef)):
            return [('next', None, env, st)]
        if isinstance(s, ast.Assert):
            return [('next', None, env, st)]
        if isinstance(s, ast.With):
            return self.block(fi, s.body, env, st, stack)
        if isinstance(s, ast.Delete):
            return [('next', None, env, st)]
        raise AnalysisError(f'E6: statement kind {type(s).__name__} is not modelled ({fi.fq})')

    def loop_while(self, fi, s, env, st, stack, iters):
        out = []
        if iters > 2 * self.L + 6:
            raise Hang()
        for truth, e2, t2 in self.cond(fi, s.test, env, st, stack):
            if isinstance(truth, Exc):
                out.append(('raise', truth, e2, t2))
                continue
            if not truth:
                if s.orelse:
                    out.extend(self.block(fi, s.orelse, e2, t2, stack))
                else:
                    out.append(('next', None, e2, t2))
                continue
            before = t2.key()
            for kind, val, e3, t3 in self.block(fi, s.body, e2, t2.fork(), stack):
                if kind == 'break':
                    out.append(('next', None, e3, t3))
                elif kind in ('next', 'continue'):
                    if t3.key() == before:
                        known = self.cond_is_token_dependent(fi, s.test, e2, t2)
                        if known:
                            raise Hang()          # a token-dependent loop made no progress
                        # a data loop (strings, lists): it ends at some point; leave it
                        if s.orelse:
                            out.extend(self.block(fi, s.orelse, e3, t3, stack))
                        else:
                            out.append(('next', None, e3, t3))
                    else:
                        out.extend(self.loop_while(fi, s, e3, t3, stack, iters + 1))
                else:
                    out.append((kind, val, e3, t3))
        return out

    def cond_is_token_dependent(self, fi, test, env, st) -> bool:
        """Did the truth of this condition come from token state (not from an unknown)?"""
        try:
            res = self.cond(fi, test, dict(env), st.fork(), 0, probe=True)
        except AnalysisError:
            return True
        return all(not unknown for _, _, _, unknown in res) if res else True

    def assign(self, fi, target, val, env, st) -> State:
        if isinstance(target, ast.Name):
            env[target.id] = val
            return st
        if isinstance(target, (ast.Tuple, ast.List)):
            items = None
            if isinstance(val, Tup) and len(val.items) == len(target.elts):
                items = list(val.items)
            elif isinstance(val, Tok) and len(target.elts) == len(TOKEN_FIELDS):
                items = [C(st.seq[val.i]) if f == 'type' else TAttr(val.i, f) for f in TOKEN_FIELDS]
            for i, t in enumerate(target.elts):
                st = self.assign(fi, t.value if isinstance(t, ast.Starred) else t, items[i] if items else UNK, env, st)
            return st
        if isinstance(target, ast.Attribute):
            base = self.pure(fi, target.value, env, st)
            if isinstance(base, Ref):
                st2 = st.fork()
                st2.heap[base.oid][target.attr] = val
                return st2
            return st
        if isinstance(target, ast.Subscript):
            return st
        raise AnalysisError(f'E6: assignment target {type(target).__name__}')

    def pure(self, fi, e, env, st) -> V:
        """Evaluate an expression that must not fork or raise (receivers of stores)."""
        res = self.expr(fi, e, env, st, 0)
        if len(res) != 1 or isinstance(res[0][0], Exc):
            raise AnalysisError(f'E6: impure receiver expression {norm(e)}')
        return res[0][0]

    # -- conditions ------------------------------------------------------------------------
    def cond(self, fi, e, env, st, stack, probe=False):
        """-> list of (truth | Exc, env, state[, unknown?])"""
        def pack(truth, e2, t2, unknown=False):
            return (truth, e2, t2, unknown) if probe else (truth, e2, t2)

        if isinstance(e, ast.BoolOp):
            results = [pack(isinstance(e.op, ast.And), env, st)]
            for v in e.values:
                new = []
                for item in results:
                    truth, e2, t2 = item[0], item[1], item[2]
                    unk = item[3] if probe else False
                    if isinstance(truth, Exc):
                        new.append(item)
                        continue
                    if (isinstance(e.op, ast.And) and truth) or (isinstance(e.op, ast.Or) and not truth):
                        for sub in self.cond(fi, v, e2, t2, stack, probe):
                            new.append(pack(sub[0], sub[1], sub[2], (sub[3] if probe else False) or unk))
                    else:
                        new.append(item)
                results = new
            return results
        if isinstance(e, ast.UnaryOp) and isinstance(e.op, ast.Not):
            out = []
            for sub in self.cond(fi, e.operand, env, st, stack, probe):
                truth = sub[0]
                out.append(pack(truth if isinstance(truth, Exc) else (not truth), sub[1], sub[2], sub[3] if probe else False))
            return out
        out = []
        for r, e2, t2 in self.expr(fi, e, env, st, stack):
            if isinstance(r, Exc):
                out.append(pack(r, e2, t2))
                continue
            tv = self.truth(fi, r, t2)
            if tv is None:
                out.append(pack(True, e2, t2.fork(), True))
                out.append(pack(False, e2, t2.fork(), True))
            else:
                out.append(pack(tv, e2, t2))
        return out

    def truth(self, fi, v: V, st: State) -> Optional[bool]:
        if isinstance(v, C):
            return bool(v.v)
        if isinstance(v, (Tok, Bound)):
            return True
        if isinstance(v, DictV):
            return bool(v.map)
        if isinstance(v, Tup):
            return len(v.items) > 0
        if isinstance(v, Ref):
            cls = st.heap[v.oid].get('$class')
            c = self._class_by_name(cls) if cls else None
            if c is not None:
                m = c.find_method('__bool__')
                if m is not None:
                    res = self.call(m, v, [], {}, st.fork(), 1)
                    vals = set()
                    for (kind, val), _ in res:
                        if kind != 'ret' or not isinstance(val, C):
                            return None
                        vals.add(bool(val.v))
                    return vals.pop() if len(vals) == 1 else None
            return True
        return None

    # -- expressions -----------------------------------------------------------------------
    def expr(self, fi, e, env, st, stack):
        """-> list of (value | Exc, env, state)"""
        if isinstance(e, ast.Constant):
            return [(C(e.value), env, st)]
        if isinstance(e, ast.Name):
            if e.id in env:
                return [(env[e.id], env, st)]
            if e.id in ('True', 'False', 'None'):
                return [(C({'True': True, 'False': False, 'None': None}[e.id]), env, st)]
            if e.id in BUILTIN_EXC_PARENTS:
                return [(C(e.id), env, st)]
            r = self.repo.resolve_name(fi.module, e.id)
            if r[0] == 'func':
                return [(Bound(r[2], None), env, st)]
            if r[0] == 'const':
                v = r[1].constants[r[2]]
                if isinstance(v, ast.Constant):
                    return [(C(v.value), env, st)]
                if isinstance(v, ast.Dict) and v.keys and all(isinstance(k, ast.Constant) for k in v.keys):
                    table = {}
                    for k, x in zip(v.keys, v.values):
                        rx = self.repo.resolve_name(r[1], x.id) if isinstance(x, ast.Name) else ('?',)
                        if rx[0] == 'func':
                            table[k.value] = Bound(rx[2], None)
                        elif isinstance(x, ast.Constant):
                            table[k.value] = C(x.value)
                        else:
                            table = None
                            break
                    if table is not None:
                        return [(DictV(table), env, st)]
                from .src import try_fold
                ok, val = try_fold(v, {}, self.repo, r[1])
                if ok and isinstance(val, (tuple, list, frozenset, set)) and all(isinstance(x, (str, int, type(None))) for x in val):
                    return [(Tup([C(x) for x in val]), env, st)]
                if ok and isinstance(val, (str, int, bool, type(None))):
                    return [(C(val), env, st)]
            return [(UNK, env, st)]
        if isinstance(e, ast.Tuple):
            return self.seq_eval(fi, e.elts, env, st, stack, lambda vals: Tup(vals))
        if isinstance(e, (ast.List, ast.Set, ast.Dict, ast.ListComp, ast.SetComp, ast.DictComp, ast.GeneratorExp, ast.JoinedStr,
                          ast.Lambda)):
            if self.mentions_tokens(fi, e, env):
                raise AnalysisError(f'E6: token operation inside {type(e).__name__}: {norm(e)[:50]}')
            return [(UNK, env, st)]
        if isinstance(e, ast.Attribute):
            out = []
            for base, e2, t2 in self.expr(fi, e.value, env, st, stack):
                if isinstance(base, Exc):
                    out.append((base, e2, t2))
                    continue
                out.append((self.getattr(fi, base, e.attr, t2), e2, t2))
            return out
        if isinstance(e, ast.Subscript):
            out = []
            for base, e2, t2 in self.expr(fi, e.value, env, st, stack):
                if isinstance(base, Exc):
                    out.append((base, e2, t2))
                    continue
                if isinstance(base, Tok) and isinstance(e.slice, ast.Constant) and isinstance(e.slice.value, int):
                    f = TOKEN_FIELDS[e.slice.value]
                    out.append((C(t2.seq[base.i]) if f == 'type' else TAttr(base.i, f), e2, t2))
                elif isinstance(base, Tup) and isinstance(e.slice, ast.Constant) and isinstance(e.slice.value, int) \
                        and -len(base.items) <= e.slice.value < len(base.items):
                    out.append((base.items[e.slice.value], e2, t2))
                elif isinstance(base, DictV):
                    for k, e3, t3 in self.expr(fi, e.slice, e2, t2, stack):
                        if isinstance(k, Exc):
                            out.append((k, e3, t3))
                        elif isinstance(k, C):
                            out.append((base.map[k.v], e3, t3) if k.v in base.map else (Exc('KeyError'), e3, t3))
                        else:
                            raise AnalysisError(f'E6: dispatch table indexed by a value that is not a token kind: {norm(e)[:50]}')
                else:
                    out.append((UNK, e2, t2))
            return out
        if isinstance(e, ast.Compare):
            return self.compare(fi, e, env, st, stack)
        if isinstance(e, ast.BoolOp) or (isinstance(e, ast.UnaryOp) and isinstance(e.op, ast.Not)):
            out = []
            for truth, e2, t2 in self.cond(fi, e, env, st, stack):
                out.append((truth if isinstance(truth, Exc) else C(truth), e2, t2))
            return out
        if isinstance(e, ast.UnaryOp):
            return [(UNK if not isinstance(r, Exc) else r, e2, t2) for r, e2, t2 in self.expr(fi, e.operand, env, st, stack)]
        if isinstance(e, ast.BinOp):
            def comb(vals):
                a, b = vals
                if isinstance(a, C) and isinstance(b, C):
                    try:
                        if isinstance(e.op, ast.Add):
                            return C(a.v + b.v)
                        if isinstance(e.op, ast.Sub):
                            return C(a.v - b.v)
                    except TypeError:
                        return UNK
                if isinstance(e.op, ast.Add) and (isinstance(a, (TAttr, Sym)) or isinstance(b, (TAttr, Sym))):
                    return Sym('add', a, b)
                return UNK
            return self.seq_eval(fi, [e.left, e.right], env, st, stack, comb)
        if isinstance(e, ast.IfExp):
            out = []
            for truth, e2, t2 in self.cond(fi, e.test, env, st, stack):
                if isinstance(truth, Exc):
                    out.append((truth, e2, t2))
                else:
                    out.extend(self.expr(fi, e.body if truth else e.orelse, e2, t2, stack))
            return out
        if isinstance(e, ast.Call):
            return self.call_expr(fi, e, env, st, stack)
        if isinstance(e, ast.Yield):
            out = []
            for r, e2, t2 in (self.expr(fi, e.value, env, st, stack) if e.value is not None else [(C(None), env, st)]):
                if isinstance(r, Exc):
                    out.append((r, e2, t2))
                elif fi.fq in getattr(self, '_obs_funcs', {fi.fq}):
                    t3 = t2.fork()
                    t3.yields = t3.yields + (self.consumed(t3),)
                    out.append((C(None), e2, t3))
                else:
                    out.append((C(None), e2, t2))          # a helper generator: the value goes to its consumer, nothing is handed to the caller of the entry
            return out
        if isinstance(e, ast.YieldFrom):
            # `yield from f(...)` where f is an interpreted generator: its yields are recorded by the callee
            return self.expr(fi, e.value, env, st, stack)
        if isinstance(e, ast.Starred):
            return self.expr(fi, e.value, env, st, stack)
        if isinstance(e, ast.NamedExpr):
            out = []
            for r, e2, t2 in self.expr(fi, e.value, env, st, stack):
                if not isinstance(r, Exc):
                    e2 = dict(e2)
                    e2[e.target.id] = r
                out.append((r, e2, t2))
            return out
        if isinstance(e, ast.FormattedValue):
            return [(UNK, env, st)]
        raise AnalysisError(f'E6: expression kind {type(e).__name__} is not modelled')

    def consumed(self, st: State) -> int:
        """Number of tokens the parser has consumed (tokens handed out minus the one-token lookahead)."""
        for oid, d in st.heap.items():
            if d.get('$class') == 'TokenIterator':
                nxt = d.get('_next')
                if isinstance(nxt, Tok):
                    return nxt.i
                return len([k for k in st.seq if k != EOF])
        return st.gptr

    def seq_eval(self, fi, exprs, env, st, stack, combine):
        results = [([], env, st)]
        for x in exprs:
            new = []
            for vals, e2, t2 in results:
                if vals and isinstance(vals[-1], Exc):
                    new.append((vals, e2, t2))
                    continue
                for r, e3, t3 in self.expr(fi, x, e2, t2, stack):
                    new.append((vals + [r], e3, t3))
            results = new
        out = []
        for vals, e2, t2 in results:
            if vals and isinstance(vals[-1], Exc):
                out.append((vals[-1], e2, t2))
            else:
                out.append((combine(vals), e2, t2))
        return out

    def mentions_tokens(self, fi, e, env) -> bool:
        for n in ast.walk(e):
            if isinstance(n, ast.Name) and isinstance(env.get(n.id), (Ref, Tok)) and isinstance(env.get(n.id), Ref):
                return True
        return False

    def getattr(self, fi, base: V, attr: str, st: State) -> V:
        if isinstance(base, Tok):
            if attr == 'type':
                return C(st.seq[base.i])
            if attr in TOKEN_FIELDS:
                return TAttr(base.i, attr)
            return UNK
        if isinstance(base, Ref):
            d = st.heap[base.oid]
            if attr in d:
                return d[attr]
            cls = d.get('$class')
            c = self._class_by_name(cls) if cls else None
            if c is not None:
                m = c.find_method(attr)
                if m is not None:
                    return Bound(m, base)
            return UNK
        if isinstance(base, C) and base.v is None:
            return UNK       # attribute of None: AttributeError at run time; penman guards these
        return UNK

    def compare(self, fi, e: ast.Compare, env, st, stack):
        if len(e.ops) != 1:
            return [(UNK, env, st)] if not self.mentions_tokens(fi, e, env) else self._unknown_cmp(e)

        def comb(vals):
            a, b = vals
            op = e.ops[0]
            if isinstance(op, (ast.Is, ast.IsNot)):
                if isinstance(a, C) and isinstance(b, C):
                    r = a.v is b.v
                elif isinstance(b, C) and b.v is None and isinstance(a, (Tok, Ref, Tup, TAttr, Sym, Bound)):
                    r = False
                elif isinstance(a, C) and a.v is None and isinstance(b, (Tok, Ref, Tup, TAttr, Sym, Bound)):
                    r = False
                else:
                    return UNK
                return C(r if isinstance(op, ast.Is) else not r)
            if isinstance(op, (ast.Eq, ast.NotEq)):
                if isinstance(a, C) and isinstance(b, C):
                    r = a.v == b.v
                    return C(r if isinstance(op, ast.Eq) else not r)
                return UNK
            if isinstance(op, (ast.In, ast.NotIn)):
                if isinstance(a, C) and isinstance(b, DictV):
                    r = a.v in b.map
                    return C(r if isinstance(op, ast.In) else not r)
                if isinstance(a, C) and isinstance(b, Tup) and all(isinstance(x, C) for x in b.items):
                    r = a.v in [x.v for x in b.items]
                    return C(r if isinstance(op, ast.In) else not r)
                if isinstance(a, C) and isinstance(b, C) and isinstance(b.v, (tuple, list, str)):
                    try:
                        r = a.v in b.v
                    except TypeError:
                        return UNK
                    return C(r if isinstance(op, ast.In) else not r)
                return UNK
            return UNK
        return self.seq_eval(fi, [e.left, e.comparators[0]], env, st, stack, comb)

    def _unknown_cmp(self, e):
        raise AnalysisError(f'E6: chained comparison over token values: {norm(e)}')

    # -- calls -----------------------------------------------------------------------------
    def call_expr(self, fi, e: ast.Call, env, st, stack):
        # evaluate callee
        out = []
        fn = e.func
        # builtin next(x) on the lexer generator
        if isinstance(fn, ast.Name) and fn.id == 'next' and fn.id not in env and e.args:
            for g, e2, t2 in self.expr(fi, e.args[0], env, st, stack):
                if isinstance(g, Exc):
                    out.append((g, e2, t2))
                elif isinstance(g, GenV):
                    for idx, t3 in self.next_token(t2):
                        if idx is None:
                            if len(e.args) > 1:
                                out.extend(self.expr(fi, e.args[1], e2, t3, stack))
                            else:
                                out.append((Exc('StopIteration'), e2, t3))
                        else:
                            out.append((Tok(idx), e2, t3))
                else:
                    out.append((UNK, e2, t2))
            return out
        if isinstance(fn, ast.Name) and fn.id == 'len' and fn.id not in env and len(e.args) == 1:
            return [(Sym('len', r) if isinstance(r, (TAttr,)) else (UNK if not isinstance(r, Exc) else r), e2, t2)
                    for r, e2, t2 in self.expr(fi, e.args[0], env, st, stack)]
        if isinstance(fn, ast.Name) and fn.id == 'bool' and fn.id not in env and len(e.args) == 1:
            return [(truth if isinstance(truth, Exc) else C(truth), e2, t2) for truth, e2, t2 in self.cond(fi, e.args[0], env, st, stack)]
        if isinstance(fn, ast.Attribute) and fn.attr == 'get' and 1 <= len(e.args) <= 2 and not e.keywords:
            bases = self.expr(fi, fn.value, env, st, stack)
            if any(isinstance(b, DictV) for b, _, _ in bases):
                for base, e2, t2 in bases:
                    if isinstance(base, Exc):
                        out.append((base, e2, t2))
                        continue
                    for vals, e3, t3 in self.seq_eval(fi, list(e.args), e2, t2, stack, lambda vals: vals):
                        if isinstance(vals, Exc):
                            out.append((vals, e3, t3))
                        elif isinstance(base, DictV) and isinstance(vals[0], C):
                            dflt = vals[1] if len(vals) > 1 else C(None)
                            out.append((base.map.get(vals[0].v, dflt), e3, t3))
                        else:
                            raise AnalysisError(f'E6: dispatch table lookup with a key that is not a token kind: {norm(e)[:50]}')
                return out
        # arguments first (left to right), then dispatch
        targets = self.cg.resolve_call(e, fi)

        def dispatch(callee_val, argvals, kwvals, e2, t2):
            res = []
            if isinstance(callee_val, Bound):
                for (kind, val), t3 in self.call(callee_val.fi, callee_val.self, argvals, kwvals, t2, stack + 1):
                    res.append((val, e2, t3))
                return res
            for t in targets:
                if t.kind == 'func':
                    if t.func.fq == self.lex_fq:
                        # the lexer boundary: a fresh TokenIterator over the abstract token generator
                        init = self.tokit.find_method('__init__')
                        t3 = t2.fork()
                        oid = max(list(t3.heap) + [0]) + 1
                        t3.heap[oid] = {'$class': 'TokenIterator'}
                        for (kind, val), t4 in self.call(init, Ref(oid), [GEN], {}, t3, stack + 1):
                            res.append((Ref(oid) if kind == 'ret' else val, e2, t4))
                        return res
                    lexer_helper = t.func.module.name == 'penman._lexer' and t.func.cls is None and t.func.fq != self.lex_fq \
                        and not any(isinstance(x, (ast.Yield, ast.YieldFrom)) for x in walk_local(t.func.node))
                    if self.takes_tokens(argvals, kwvals) or t.func.module.name == 'penman._parse' or lexer_helper or \
                            (t.func.cls is not None and t.func.cls.fq == self.tokit.fq):
                        selfv = None
                        for (kind, val), t3 in self.call(t.func, selfv, argvals, kwvals, t2, stack + 1):
                            res.append((val, e2, t3))
                        return res
                    return [(UNK, e2, t2)]
                if t.kind == 'class':
                    c = t.cls
                    if any(b.split('.')[-1] in ('Exception',) for k in c.mro() for b in k.base_exprs) or \
                            c.module.name == 'penman.exceptions':
                        t3 = t2.fork()
                        oid = max(list(t3.heap) + [0]) + 1
                        t3.heap[oid] = {'$class': c.name}
                        init = c.find_method('__init__')
                        if init is not None:
                            for (kind, val), t4 in self.call(init, Ref(oid), argvals, kwvals, t3, stack + 1):
                                res.append((Ref(oid) if kind == 'ret' else val, e2, t4))
                            return res
                        return [(Ref(oid), e2, t3)]
                    if c.fq == self.tokit.fq:
                        init = c.find_method('__init__')
                        t3 = t2.fork()
                        oid = max(list(t3.heap) + [0]) + 1
                        t3.heap[oid] = {'$class': 'TokenIterator'}
                        for (kind, val), t4 in self.call(init, Ref(oid), argvals, kwvals, t3, stack + 1):
                            res.append((Ref(oid) if kind == 'ret' else val, e2, t4))
                        return res
                    return [(UNK, e2, t2)]
            if self.takes_tokens(argvals, kwvals) and not all(t.kind in ('ext', 'method?') for t in targets):
                raise AnalysisError(f'E6: the token iterator is passed to an unresolved callee: {norm(e.func)}')
            return [(UNK, e2, t2)]

        # evaluate callee object (for bound methods on heap objects)
        cal_results = [(None, env, st)]
        if isinstance(fn, ast.Attribute):
            cal_results = []
            for base, e2, t2 in self.expr(fi, fn.value, env, st, stack):
                if isinstance(base, Exc):
                    out.append((base, e2, t2))
                    continue
                cv = self.getattr(fi, base, fn.attr, t2) if isinstance(base, Ref) else None
                cal_results.append((cv if isinstance(cv, Bound) else None, e2, t2))
        elif isinstance(fn, ast.Name) and isinstance(env.get(fn.id), Bound):
            cal_results = [(env[fn.id], env, st)]
        for cv, e2, t2 in cal_results:
            argexprs = list(e.args) + [k.value for k in e.keywords]

            def comb(vals):
                return vals
            for vals, e3, t3 in self.seq_eval(fi, argexprs, e2, t2, stack, comb):
                if isinstance(vals, Exc):
                    out.append((vals, e3, t3))
                    continue
                argvals = []
                for a, v in zip(e.args, vals[:len(e.args)]):
                    if isinstance(a, ast.Starred) and isinstance(v, Tup):
                        argvals.extend(v.items)
                    else:
                        argvals.append(v)
                kwvals = {k.arg: v for k, v in zip(e.keywords, vals[len(e.args):]) if k.arg is not None}
                for r, e4, t4 in dispatch(cv, argvals, kwvals, e3, t3):
                    out.append((r, e4, t4))
        return out

    def takes_tokens(self, argvals, kwvals) -> bool:
        """Does the call receive the token iterator, a token, or something derived from a token?"""
        def tokish(v):
            if isinstance(v, (Ref, Tok, TAttr, Sym)):
                return True
            if isinstance(v, Tup):
                return any(tokish(x) for x in v.items)
            return False
        return any(tokish(v) for v in list(argvals) + list(kwvals.values()))

    # -- driving ---------------------------------------------------------------------------
    def run_entry(self, fi: FuncInfo) -> Dict[tuple, set]:
        """Observations of entry(s): {token kind sequence (with EOF if reached): {observation}}"""
        obs: Dict[tuple, set] = {}
        st0 = State()
        self._obs_funcs = self._observation_generators(fi)
        try:
            results = self.call(fi, None, [UNK], {}, st0, 0)
        except Hang:
            raise AnalysisError(f'E6: the abstract run of {fi.fq} exceeded its step limit (a loop without progress?)')
        for (kind, val), st in results:
            self.n_paths += 1
            seq = st.seq
            if kind == 'ret':
                o = ('ok', st.yields, self.consumed(st))
            else:
                o = self.classify_exc(val, st)
            obs.setdefault(seq, set()).add(o)
        return obs

    def _observation_generators(self, entry: FuncInfo) -> set:
        """The entry and the generators it re-yields with `yield from`: their yields are the trees handed to the caller (observations).
        Any other generator function of the module is a helper whose yields are values for its consumer: it is run eagerly, which is only
        the same as the real (lazy) run if the consumer drains it on the spot - anything else fails closed."""
        obs = {entry.fq}
        todo = [entry]
        while todo:
            f = todo.pop()
            for n in walk_local(f.node):
                if isinstance(n, ast.YieldFrom) and isinstance(n.value, ast.Call):
                    for t in self.cg.resolve_call(n.value, f):
                        if t.kind == 'func' and t.func.fq not in obs:
                            obs.add(t.func.fq)
                            todo.append(t.func)
        mod = entry.module
        gens = {g.fq for g in mod.all_funcs if any(isinstance(x, (ast.Yield, ast.YieldFrom)) for x in walk_local(g.node))}
        for f in mod.all_funcs:
            pm = self.repo.parent_map(f.node)
            for n in walk_local(f.node):
                if not isinstance(n, ast.Call):
                    continue
                ts = [t.func.fq for t in self.cg.resolve_call(n, f) if t.kind == 'func']
                if not any(fq in gens and fq not in obs for fq in ts):
                    continue
                par = pm.get(id(n))
                drained = (isinstance(par, ast.Call) and ((isinstance(par.func, ast.Attribute) and par.func.attr == 'extend') or norm(par.func) in ('list', 'tuple'))
                           and n in par.args)
                if not drained:
                    raise AnalysisError(f'E6: the generator helper called at {f.fq}:{n.lineno} is not drained on the spot (extend/list/tuple): its lazy evaluation '
                                        f'order is not modelled')
        return obs

    def classify_exc(self, exc: Exc, st: State):
        if exc.cls != 'DecodeError' or exc.ref is None:
            return ('exception', st.yields, exc.cls)
        d = st.heap[exc.ref.oid]
        ln, off = d.get('lineno'), d.get('offset')
        if isinstance(ln, TAttr) and ln.name == 'lineno' and isinstance(off, TAttr) and off.name == 'offset' and ln.i == off.i:
            return ('error-at-token', st.yields, ln.i)
        if isinstance(ln, TAttr) and ln.name == 'lineno' and isinstance(off, Sym) and off.op == 'add':
            a, b = off.args
            parts = {repr(a), repr(b)}
            if parts == {f'tok{ln.i}.offset', f"len(tok{ln.i}.text,)"}:
                return ('error-after-token', st.yields, ln.i)
        if isinstance(ln, C) and isinstance(off, C) and ln.v == 0 and off.v == 0:
            return ('error-at-origin', st.yields, -1)
        return ('error-elsewhere', st.yields, f'{ln!r}/{off!r}')


# ---------------------------------------------------------------------------------------------
# reference recogniser: written from docs/notation.rst + the "allowed but unconventional" list
# ---------------------------------------------------------------------------------------------
class NeedMore(Exception):
    pass


class RefParser:
    """Recursive descent over a complete token-kind sequence (a tuple ending in EOF when the input
    end was inspected).  Mirrors the *documented* behaviour, not the code."""

    def __init__(self, seq: tuple):
        self.seq = [k for k in seq if k != EOF]
        self.ended = bool(seq) and seq[-1] == EOF
        self.pos = 0

    def peek(self) -> Optional[str]:
        if self.pos < len(self.seq):
            return self.seq[self.pos]
        if self.ended:
            return None
        raise NeedMore()

    def fail(self):
        k = self.peek()
        if k is None:
            if self.pos == 0:
                raise RefError('error-at-origin', -1)
            raise RefError('error-after-token', self.pos - 1)
        raise RefError('error-at-token', self.pos)

    def eat(self, *kinds):
        if self.peek() in kinds:
            self.pos += 1
            return True
        return False

    def expect(self, *kinds):
        if not self.eat(*kinds):
            self.fail()

    def graph(self):
        while self.eat('COMMENT'):
            pass
        self.node()

    def node(self):
        self.expect('LPAREN')
        if self.eat('RPAREN'):            # "()" : allowed, empty node
            return
        self.expect('SYMBOL')             # variable
        if self.peek() is None:
            self.fail()
        if self.eat('SLASH'):
            if self.peek() is None:
                self.fail()
            if self.eat('SYMBOL', 'STRING'):          # concept (may be missing: "(a /)")
                if self.peek() is None:
                    self.fail()
                self.eat('ALIGNMENT')
        while True:
            k = self.peek()
            if k is None:
                self.fail()
            if k == 'RPAREN':
                self.pos += 1
                return
            self.edge()

    def edge(self):
        self.expect('ROLE')
        if self.peek() is None:
            self.fail()
        self.eat('ALIGNMENT')
        k = self.peek()
        if k is None:
            self.fail()
        if k in ('SYMBOL', 'STRING'):
            self.pos += 1
            if self.peek() is None:
                self.fail()
            self.eat('ALIGNMENT')
        elif k == 'LPAREN':
            self.node()
        elif k in ('ROLE', 'RPAREN'):
            return                         # missing target: allowed before a role or ')'
        else:
            self.fail()


class RefError(Exception):
    def __init__(self, shape, idx):
        self.shape, self.idx = shape, idx


def reference(entry: str, seq: tuple):
    """Observation the documented grammar prescribes for this kind sequence (may raise NeedMore)."""
    p = RefParser(seq)
    yields = ()
    try:
        if entry == 'parse':
            p.graph()
            return ('ok', (), p.pos)
        if entry == 'iterparse':
            while True:
                k = p.peek()
                if k in ('COMMENT', 'LPAREN'):
                    p.graph()
                    yields = yields + (p.pos,)
                else:
                    return ('ok', yields, p.pos)
        raise AnalysisError(f'no reference for entry {entry}')
    except RefError as e:
        return (e.shape, yields, e.idx)
