"""E2 - statement-level control-flow graphs with split conditions, and classical dataflow.

Node kinds: entry, exit (normal return), rexit (exception leaves the function), stmt (simple
statement), cond (one atomic condition of an if/while test; out-edges 'T'/'F'), for (iterator
step; 'T' = next element bound, 'F' = exhausted), loophead, handler (except clause entry), join.
"""
from __future__ import annotations

import ast
from typing import Callable, Dict, FrozenSet, Iterable, List, Optional, Set, Tuple

from .src import AnalysisError, norm

Edge = Tuple[int, Optional[str]]          # (node id, label of the dangling out-edge)


class Node:
    __slots__ = ('id', 'kind', 'ast', 'label')

    def __init__(self, id: int, kind: str, node: Optional[ast.AST], label: str = ''):
        self.id = id
        self.kind = kind
        self.ast = node
        self.label = label

    def __repr__(self):
        src = norm(self.ast).split('\n')[0][:60] if self.ast is not None else ''
        return f'<{self.id}:{self.kind} {src}>'


class CFG:
    def __init__(self, fnode: ast.AST):
        self.fnode = fnode
        self.nodes: List[Node] = []
        self.succ: Dict[int, List[Tuple[int, Optional[str]]]] = {}
        self.pred: Dict[int, List[Tuple[int, Optional[str]]]] = {}
        self.stmt_node: Dict[int, int] = {}       # id(ast stmt) -> first node id evaluating it
        self.expr_cond: Dict[int, int] = {}       # id(ast expr of an atomic condition) -> node id
        self.entry = self._new('entry', None)
        self.exit = self._new('exit', None)
        self.rexit = self._new('rexit', None)
        self._loops: List[Tuple[int, List[Edge]]] = []     # (continue target, break frontier)
        self._handlers: List[List[int]] = []               # stack of handler-entry node ids
        self.loop_heads: Dict[int, ast.AST] = {}           # head node id -> loop stmt
        out = self._seq(fnode.body, [(self.entry, None)])
        self._connect(out, self.exit)

    # -- construction ----------------------------------------------------------------------
    def _new(self, kind, node, label='') -> int:
        n = Node(len(self.nodes), kind, node, label)
        self.nodes.append(n)
        self.succ[n.id] = []
        self.pred[n.id] = []
        return n.id

    def _edge(self, a: int, b: int, label=None):
        if (b, label) not in self.succ[a]:
            self.succ[a].append((b, label))
            self.pred[b].append((a, label))

    def _connect(self, frontier: List[Edge], target: int):
        for n, lab in frontier:
            self._edge(n, target, lab)

    def _seq(self, stmts, frontier: List[Edge]) -> List[Edge]:
        for st in stmts:
            frontier = self._stmt(st, frontier)
        return frontier

    def _exc_edges(self, nid: int):
        """A statement inside try: may transfer to any enclosing handler of the innermost try."""
        if self._handlers:
            for h in self._handlers[-1]:
                self._edge(nid, h, 'exc')

    def _simple(self, st, frontier, kind='stmt') -> int:
        nid = self._new(kind, st)
        self.stmt_node.setdefault(id(st), nid)
        self._connect(frontier, nid)
        self._exc_edges(nid)
        return nid

    def _cond(self, expr, frontier: List[Edge], owner) -> Tuple[List[Edge], List[Edge]]:
        if isinstance(expr, ast.BoolOp):
            if isinstance(expr.op, ast.And):
                t, falses = frontier, []
                for v in expr.values:
                    t, f = self._cond(v, t, owner)
                    falses += f
                return t, falses
            else:
                f, trues = frontier, []
                for v in expr.values:
                    t, f = self._cond(v, f, owner)
                    trues += t
                return trues, f
        if isinstance(expr, ast.UnaryOp) and isinstance(expr.op, ast.Not):
            t, f = self._cond(expr.operand, frontier, owner)
            return f, t
        nid = self._new('cond', expr)
        self.expr_cond[id(expr)] = nid
        self.stmt_node.setdefault(id(owner), nid)
        self._connect(frontier, nid)
        self._exc_edges(nid)
        if isinstance(expr, ast.Constant):
            if expr.value:
                return [(nid, 'T')], []
            return [], [(nid, 'F')]
        return [(nid, 'T')], [(nid, 'F')]

    def _stmt(self, st, frontier: List[Edge]) -> List[Edge]:
        if isinstance(st, ast.If):
            t, f = self._cond(st.test, frontier, st)
            out = self._seq(st.body, t)
            out += self._seq(st.orelse, f) if st.orelse else f
            return out
        if isinstance(st, ast.While):
            head = self._new('loophead', st)
            self.loop_heads[head] = st
            self.stmt_node.setdefault(id(st), head)
            self._connect(frontier, head)
            t, f = self._cond(st.test, [(head, None)], st)
            self._loops.append((head, []))
            body_out = self._seq(st.body, t)
            self._connect(body_out, head)
            _, breaks = self._loops.pop()
            out = self._seq(st.orelse, f) if st.orelse else f
            return out + breaks
        if isinstance(st, (ast.For, ast.AsyncFor)):
            head = self._new('for', st)
            self.loop_heads[head] = st
            self.stmt_node.setdefault(id(st), head)
            self._connect(frontier, head)
            self._exc_edges(head)
            self._loops.append((head, []))
            body_out = self._seq(st.body, [(head, 'T')])
            self._connect(body_out, head)
            _, breaks = self._loops.pop()
            f = [(head, 'F')]
            out = self._seq(st.orelse, f) if st.orelse else f
            return out + breaks
        if isinstance(st, ast.Break):
            nid = self._simple(st, frontier)
            if not self._loops:
                raise AnalysisError('break outside loop')
            self._loops[-1][1].append((nid, None))
            return []
        if isinstance(st, ast.Continue):
            nid = self._simple(st, frontier)
            self._edge(nid, self._loops[-1][0], None)
            return []
        if isinstance(st, ast.Return):
            nid = self._simple(st, frontier)
            self._edge(nid, self.exit, None)
            return []
        if isinstance(st, ast.Raise):
            nid = self._new('stmt', st)
            self.stmt_node.setdefault(id(st), nid)
            self._connect(frontier, nid)
            if self._handlers:
                for h in self._handlers[-1]:
                    self._edge(nid, h, 'exc')
                # a raise inside try may also escape if no handler matches
                self._edge(nid, self.rexit, 'exc')
            else:
                self._edge(nid, self.rexit, 'exc')
            return []
        if isinstance(st, ast.Try) or st.__class__.__name__ == 'TryStar':
            hentries = []
            for h in st.handlers:
                hentries.append(self._new('handler', h))
            self._handlers.append(hentries)
            body_out = self._seq(st.body, frontier)
            self._handlers.pop()
            body_out = self._seq(st.orelse, body_out) if st.orelse else body_out
            outs = list(body_out)
            for h, hid in zip(st.handlers, hentries):
                self._exc_edges(hid)   # exceptions inside a handler reach outer handlers
                outs += self._seq(h.body, [(hid, None)])
            if st.finalbody:
                outs = self._seq(st.finalbody, outs)
            return outs
        if isinstance(st, (ast.With, ast.AsyncWith)):
            nid = self._simple(st, frontier, 'stmt')
            return self._seq(st.body, [(nid, None)])
        if st.__class__.__name__ == 'Match':
            raise AnalysisError('match statements are not modelled by the CFG builder')
        # simple statements (Assign, AugAssign, AnnAssign, Expr, Pass, Assert, Delete, Import,
        # Global, Nonlocal, FunctionDef, ClassDef ...)
        nid = self._simple(st, frontier)
        if isinstance(st, ast.Assert):
            self._edge(nid, self.rexit, 'exc') if not self._handlers else None
        return [(nid, None)]

    # -- queries ---------------------------------------------------------------------------
    def node_of(self, st: ast.AST) -> int:
        if id(st) not in self.stmt_node:
            raise AnalysisError(f'statement not in CFG: {norm(st)[:60]}')
        return self.stmt_node[id(st)]

    def reachable_from(self, start: Iterable[int], avoid: Optional[Callable[[Node], bool]] = None,
                       via: Optional[Callable[[int, int, Optional[str]], bool]] = None) -> Set[int]:
        seen: Set[int] = set()
        stack = list(start)
        while stack:
            n = stack.pop()
            if n in seen:
                continue
            seen.add(n)
            if avoid is not None and avoid(self.nodes[n]) and n not in start:
                continue
            for m, lab in self.succ[n]:
                if via is not None and not via(n, m, lab):
                    continue
                if m not in seen:
                    stack.append(m)
        return seen

    def path_avoiding(self, src_edges: List[Tuple[int, Optional[str]]], dst: Set[int],
                      blocked: Callable[[Node], bool]) -> Optional[List[int]]:
        """A path starting with one of the out-edges (node, label) in src_edges to a node in dst
        that passes through no node n with blocked(n) (end points excluded).  None if every path
        is blocked."""
        from collections import deque
        q = deque()
        prev: Dict[int, Optional[int]] = {}
        for n, lab in src_edges:
            for m, l2 in self.succ[n]:
                if lab is not None and l2 != lab:
                    continue
                if m not in prev:
                    prev[m] = None
                    q.append(m)
        while q:
            n = q.popleft()
            if n in dst:
                path = [n]
                while prev[path[-1]] is not None:
                    path.append(prev[path[-1]])
                return list(reversed(path))
            if blocked(self.nodes[n]):
                continue
            for m, _ in self.succ[n]:
                if m not in prev:
                    prev[m] = n
                    q.append(m)
        return None

    def dominators(self) -> Dict[int, Set[int]]:
        allnodes = set(self.reachable_from([self.entry]))
        dom = {n: set(allnodes) for n in allnodes}
        dom[self.entry] = {self.entry}
        changed = True
        order = sorted(allnodes)
        while changed:
            changed = False
            for n in order:
                if n == self.entry:
                    continue
                preds = [p for p, _ in self.pred[n] if p in allnodes]
                new = set.intersection(*(dom[p] for p in preds)) if preds else set()
                new = new | {n}
                if new != dom[n]:
                    dom[n] = new
                    changed = True
        return dom

    def back_edges(self) -> List[Tuple[int, int]]:
        dom = self.dominators()
        out = []
        for n in dom:
            for m, _ in self.succ[n]:
                if m in dom.get(n, ()):
                    out.append((n, m))
        return out

    def loop_body(self, head: int) -> Set[int]:
        """Nodes of the natural loop with this head."""
        body = {head}
        stack = [n for n, m in self.back_edges() if m == head]
        while stack:
            n = stack.pop()
            if n in body:
                continue
            body.add(n)
            stack.extend(p for p, _ in self.pred[n])
        return body

    # -- generic forward dataflow ----------------------------------------------------------
    def forward(self, init, transfer: Callable[[Node, Optional[str], object], object],
                meet: Callable[[object, object], object], top=None) -> Dict[int, object]:
        """IN[entry] = init; OUT along edge (n, label) = transfer(node n, label, IN[n]);
        IN[m] = meet over incoming edges.  `top` is the value of unvisited nodes (identity of meet).
        Returns IN."""
        IN: Dict[int, object] = {self.entry: init}
        work = [self.entry]
        rounds = 0
        while work:
            rounds += 1
            if rounds > 200000:
                raise AnalysisError('dataflow did not converge')
            n = work.pop()
            for m, lab in self.succ[n]:
                out = transfer(self.nodes[n], lab, IN[n])
                if m not in IN:
                    IN[m] = out
                    work.append(m)
                else:
                    new = meet(IN[m], out)
                    if new != IN[m]:
                        IN[m] = new
                        work.append(m)
        return IN


# ------------------------------------------------------------------------------------------
# Facts: conditions known to hold (must) at each node, with kills on assignment / mutation.
# ------------------------------------------------------------------------------------------

MUTATORS = {'append', 'extend', 'insert', 'pop', 'remove', 'clear', 'sort', 'reverse', 'update', 'add',
            'discard', 'setdefault', 'popitem', '__setitem__', '__delitem__'}


def names_in(expr: ast.AST) -> Set[str]:
    return {n.id for n in ast.walk(expr) if isinstance(n, ast.Name)}


def assigned_names(st: ast.AST) -> Set[str]:
    """Names (re)bound by a simple statement or loop/with header."""
    out: Set[str] = set()

    def tgt(t):
        if isinstance(t, ast.Name):
            out.add(t.id)
        elif isinstance(t, (ast.Tuple, ast.List)):
            for e in t.elts:
                tgt(e)
        elif isinstance(t, ast.Starred):
            tgt(t.value)

    if isinstance(st, ast.Assign):
        for t in st.targets:
            tgt(t)
    elif isinstance(st, (ast.AugAssign, ast.AnnAssign)):
        tgt(st.target)
    elif isinstance(st, (ast.For, ast.AsyncFor)):
        tgt(st.target)
    elif isinstance(st, (ast.With, ast.AsyncWith)):
        for it in st.items:
            if it.optional_vars is not None:
                tgt(it.optional_vars)
    elif isinstance(st, (ast.FunctionDef, ast.ClassDef, ast.AsyncFunctionDef)):
        out.add(st.name)
    elif isinstance(st, (ast.Import, ast.ImportFrom)):
        for a in st.names:
            out.add(a.asname or a.name.split('.')[0])
    if isinstance(st, ast.AST):
        for n in ast.walk(st) if not isinstance(st, (ast.For, ast.While, ast.If, ast.With, ast.Try)) else []:
            if isinstance(n, ast.NamedExpr):
                tgt(n.target)
    return out


def mutated_bases(st: ast.AST) -> Set[str]:
    """Base names whose object may be mutated by this simple statement (stores through
    subscripts/attributes, deletes, mutator-method calls)."""
    out: Set[str] = set()

    def base(e):
        while isinstance(e, (ast.Attribute, ast.Subscript)):
            e = e.value
        return e.id if isinstance(e, ast.Name) else None

    def tgt(t):
        if isinstance(t, (ast.Subscript, ast.Attribute)):
            b = base(t)
            if b:
                out.add(b)
        elif isinstance(t, (ast.Tuple, ast.List)):
            for e in t.elts:
                tgt(e)

    if isinstance(st, ast.Assign):
        for t in st.targets:
            tgt(t)
    elif isinstance(st, (ast.AugAssign, ast.AnnAssign)):
        tgt(st.target)
    elif isinstance(st, ast.Delete):
        for t in st.targets:
            tgt(t)
    hdr = st
    if isinstance(st, (ast.For, ast.AsyncFor)):
        hdr = st.iter
    elif isinstance(st, (ast.With, ast.AsyncWith)):
        hdr = ast.Tuple(elts=[it.context_expr for it in st.items], ctx=ast.Load())
    elif isinstance(st, (ast.FunctionDef, ast.AsyncFunctionDef, ast.ClassDef)):
        return out
    for n in ast.walk(hdr):
        if isinstance(n, ast.Call) and isinstance(n.func, ast.Attribute) and n.func.attr in MUTATORS:
            b = base(n.func.value)
            if b:
                out.add(b)
    return out


Fact = Tuple[str, bool]       # (normalised condition, polarity)


def cond_facts(cfg: CFG, extra_kill: Optional[Callable[[Node], Set[str]]] = None) -> Dict[int, FrozenSet[Fact]]:
    """Forward must-analysis: which atomic conditions are known true/false on entry to each node.
    A fact is killed when a name it mentions is re-bound or its object mutated."""
    TOP = None

    def kill(facts: FrozenSet[Fact], names: Set[str]) -> FrozenSet[Fact]:
        if not names:
            return facts
        return frozenset(f for f in facts if not (_fact_names(f[0]) & names))

    def transfer(node: Node, label, facts):
        if node.kind == 'cond':
            if label in ('T', 'F'):
                killed = kill(facts, mutated_bases(node.ast) | _walrus(node.ast))
                return killed | _cond_facts_of(node.ast, label == 'T')
            return facts
        if node.kind in ('stmt', 'for'):
            st = node.ast
            names = assigned_names(st) | mutated_bases(st)
            if extra_kill is not None:
                names |= extra_kill(node)
            if node.kind == 'for' and label == 'F':
                names = mutated_bases(st)
            return kill(facts, names)
        if node.kind == 'handler':
            h = node.ast
            return kill(facts, {h.name} if h.name else set())
        return facts

    def meet(a, b):
        return a & b

    return cfg.forward(frozenset(), transfer, meet)


_fact_name_cache: Dict[str, Set[str]] = {}


def _fact_names(src: str) -> Set[str]:
    if src not in _fact_name_cache:
        _fact_name_cache[src] = names_in(ast.parse(src, mode='eval'))
    return _fact_name_cache[src]


def _walrus(expr) -> Set[str]:
    return {n.target.id for n in ast.walk(expr) if isinstance(n, ast.NamedExpr) and isinstance(n.target, ast.Name)}


def syntactic_facts(pm: Dict[int, ast.AST], node: ast.AST, stop: ast.AST) -> Set[Fact]:
    """Conditions implied by the position of `node` inside the expression/statement `stop`:
    IfExp arms, right operands of and/or, comprehension filters."""
    facts: Set[Fact] = set()
    child = node
    while child is not stop and id(child) in pm:
        parent = pm[id(child)]
        if isinstance(parent, ast.IfExp):
            if child is parent.body:
                facts |= _split(parent.test, True)
            elif child is parent.orelse:
                facts |= _split(parent.test, False)
        elif isinstance(parent, ast.BoolOp):
            idx = next(i for i, v in enumerate(parent.values) if v is child)
            for v in parent.values[:idx]:
                facts |= _split(v, isinstance(parent.op, ast.And))
        elif isinstance(parent, (ast.ListComp, ast.SetComp, ast.GeneratorExp, ast.DictComp)):
            if child is not parent.generators[0].iter if parent.generators else True:
                for g in parent.generators:
                    if child is g or child is g.iter:
                        continue
                    for c in g.ifs:
                        if c is not child:
                            facts |= _split(c, True)
        elif isinstance(parent, ast.comprehension):
            if child in parent.ifs:
                idx = parent.ifs.index(child)
                for c in parent.ifs[:idx]:
                    facts |= _split(c, True)
        child = parent
    return facts


def cnorm(e: ast.AST) -> str:
    """Normalised source of a condition; isinstance(x, (C,)) is the same fact as isinstance(x, C)."""
    if isinstance(e, ast.Call) and isinstance(e.func, ast.Name) and e.func.id == 'isinstance' and len(e.args) == 2 \
            and isinstance(e.args[1], ast.Tuple) and len(e.args[1].elts) == 1:
        return f'isinstance({norm(e.args[0])}, {norm(e.args[1].elts[0])})'
    return norm(e)


def _cond_facts_of(test: ast.AST, polarity: bool) -> Set[Fact]:
    """Facts established by one atomic condition.  `(x := e)` tested for truth says the same of `e` and of `x`
    (the fact about `e` is what rules look for; the one about `x` holds until x is re-bound);  `(x := e) is None` likewise for the comparison."""
    out: Set[Fact] = {(cnorm(test), polarity)}
    if isinstance(test, ast.NamedExpr) and isinstance(test.target, ast.Name):
        out.add((cnorm(test.value), polarity))
        out.add((test.target.id, polarity))
    elif isinstance(test, ast.Compare) and isinstance(test.left, ast.NamedExpr) and isinstance(test.left.target, ast.Name):
        for repl in (test.left.value, ast.Name(id=test.left.target.id, ctx=ast.Load())):
            c2 = ast.Compare(left=repl, ops=test.ops, comparators=test.comparators)
            out.add((cnorm(ast.fix_missing_locations(ast.copy_location(c2, test))), polarity))
    return out


def _split(test: ast.AST, polarity: bool) -> Set[Fact]:
    """Atomic facts implied by test == polarity."""
    if isinstance(test, ast.UnaryOp) and isinstance(test.op, ast.Not):
        return _split(test.operand, not polarity)
    if isinstance(test, ast.BoolOp):
        if isinstance(test.op, ast.And) and polarity:
            out = set()
            for v in test.values:
                out |= _split(v, True)
            return out
        if isinstance(test.op, ast.Or) and not polarity:
            out = set()
            for v in test.values:
                out |= _split(v, False)
            return out
        return set()
    return _cond_facts_of(test, polarity)


def facts_at(cfg: CFG, IN: Dict[int, FrozenSet[Fact]], pm: Dict[int, ast.AST], node: ast.AST) -> Set[Fact]:
    """All facts known when `node` (any expression inside the function) is evaluated."""
    # climb to the owning CFG node: an atomic condition expression or a statement
    n = node
    while True:
        if id(n) in cfg.expr_cond:
            nid = cfg.expr_cond[id(n)]
            owner = n
            break
        if isinstance(n, ast.stmt):
            nid = cfg.node_of(n)
            owner = n
            # for compound statements the node evaluated is the header; `node` must be in the header
            break
        n = pm[id(n)]
    facts = set(IN.get(nid, frozenset()))
    facts |= syntactic_facts(pm, node, owner)
    return facts


# ------------------------------------------------------------------------------------------
# Reaching definitions (may): name -> CFG node ids of the definitions that can reach a node.
# ------------------------------------------------------------------------------------------

def reaching_defs(cfg: CFG, params: Iterable[str] = ()) -> Dict[int, Dict[str, FrozenSet[int]]]:
    """IN[node] : name -> frozenset of defining node ids (cfg.entry stands for 'parameter')."""
    init = {p: frozenset([cfg.entry]) for p in params}

    def transfer(node: Node, label, env):
        names: Set[str] = set()
        if node.kind in ('stmt', 'for'):
            if node.kind == 'for' and label == 'F':
                return env
            names = assigned_names(node.ast)
        elif node.kind == 'cond':
            names = _walrus(node.ast)
        elif node.kind == 'handler' and node.ast.name:
            names = {node.ast.name}
        if not names:
            return env
        new = dict(env)
        for n in names:
            new[n] = frozenset([node.id])
        return new

    def meet(a, b):
        if a == b:
            return a
        out = dict(a)
        for k, v in b.items():
            out[k] = out.get(k, frozenset()) | v
        return out

    return cfg.forward(init, transfer, meet)


def def_value(cfg: CFG, def_node: int, name: str) -> Optional[ast.AST]:
    """The expression assigned to `name` by the plain assignment at def_node (None if the binding
    is an unpacking, loop target, augmented assignment, parameter ...)."""
    nd = cfg.nodes[def_node]
    st = nd.ast
    if nd.kind == 'stmt' and isinstance(st, ast.Assign):
        for t in st.targets:
            if isinstance(t, ast.Name) and t.id == name:
                return st.value
    if nd.kind == 'stmt' and isinstance(st, ast.AnnAssign) and isinstance(st.target, ast.Name) \
            and st.target.id == name:
        return st.value
    if nd.kind == 'stmt' and isinstance(st, ast.Assign) and len(st.targets) == 1 and isinstance(st.targets[0], (ast.Tuple, ast.List)) \
            and isinstance(st.value, (ast.Tuple, ast.List)) and len(st.value.elts) == len(st.targets[0].elts):
        # a, b = x, y  (not an exchange of the same names)
        tn = {x.id for e in st.targets[0].elts for x in ast.walk(e) if isinstance(x, ast.Name)}
        vn = {x.id for e in st.value.elts for x in ast.walk(e) if isinstance(x, ast.Name)}
        if not (tn & vn):
            for t, v in zip(st.targets[0].elts, st.value.elts):
                if isinstance(t, ast.Name) and t.id == name:
                    return v
    if st is not None and nd.kind in ('cond', 'stmt'):
        # (name := value) inside a condition or an expression statement
        for x in ast.walk(st):
            if isinstance(x, ast.NamedExpr) and isinstance(x.target, ast.Name) and x.target.id == name:
                return x.value
    return None


def owner_node(cfg: CFG, pm: Dict[int, ast.AST], node: ast.AST) -> int:
    """CFG node at which the expression/statement `node` is evaluated."""
    n = node
    while True:
        if id(n) in cfg.expr_cond:
            return cfg.expr_cond[id(n)]
        if isinstance(n, ast.stmt):
            return cfg.node_of(n)
        n = pm[id(n)]
