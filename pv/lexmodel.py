"""Model of penman/_lexer.py's token patterns, obtained by constant folding (never by import)."""
from __future__ import annotations

import ast
import json
import re
from pathlib import Path
from typing import Dict, List, Optional, Tuple

from .rx import CS, Lang, ParsedPattern, Rx
from .src import AnalysisError, Repo, fold, norm, try_fold, Unfoldable

SPEC = Path(__file__).resolve().parent.parent / 'spec'

_RE_FLAGS = {'VERBOSE': re.VERBOSE, 'X': re.VERBOSE, 'IGNORECASE': re.IGNORECASE, 'I': re.IGNORECASE,
             'MULTILINE': re.MULTILINE, 'M': re.MULTILINE, 'DOTALL': re.DOTALL, 'S': re.DOTALL,
             'ASCII': re.ASCII, 'A': re.ASCII, 'UNICODE': re.UNICODE, 'U': re.UNICODE}


def fold_flags(expr: Optional[ast.AST]) -> int:
    if expr is None:
        return 0
    if isinstance(expr, ast.Constant) and isinstance(expr.value, int):
        return expr.value
    if isinstance(expr, ast.Attribute) and isinstance(expr.value, ast.Name) and expr.value.id == 're' \
            and expr.attr in _RE_FLAGS:
        return _RE_FLAGS[expr.attr]
    if isinstance(expr, ast.BinOp) and isinstance(expr.op, ast.BitOr):
        return fold_flags(expr.left) | fold_flags(expr.right)
    raise AnalysisError(f'regex flags expression not understood: {norm(expr)}')


class CompiledPattern:
    def __init__(self, name: str, pattern: str, flags: int, origin: str):
        self.name = name
        self.pattern = pattern
        self.flags = flags
        self.origin = origin
        self.parsed = ParsedPattern(pattern, flags)
        self.alts: List[Tuple[Optional[str], Lang, object]] = []
        self.lazy: Dict[Optional[str], int] = {}
        for gname, rx, sub in self.parsed.alternatives():
            nlazy = ParsedPattern.lazy_repeats(sub)
            self.lazy[gname] = nlazy
            # a lazy alternative matches the shortest member at a position: its token language is the set
            # of members without a proper prefix in the language
            self.alts.append((gname, Lang(rx, gname or '?', shortest=nlazy > 0), sub))

    def names(self) -> List[Optional[str]]:
        return [n for n, _, _ in self.alts]

    def lang(self, name: str) -> Lang:
        for n, l, _ in self.alts:
            if n == name:
                return l
        raise AnalysisError(f'{self.name} has no alternative named {name}')

    def has(self, name: str) -> bool:
        return any(n == name for n, _, _ in self.alts)


class LexModel:
    def __init__(self, repo: Repo):
        self.repo = repo
        self.module = repo.module('penman._lexer')
        ok, pats = try_fold(repo.constant('penman._lexer', 'PATTERNS'), {}, repo, self.module)
        if not ok or not isinstance(pats, dict) or not all(isinstance(v, str) for v in pats.values()):
            raise AnalysisError('penman._lexer.PATTERNS is not a literal dict of strings')
        self.patterns: Dict[str, str] = pats
        self.compiled: Dict[str, CompiledPattern] = {}
        for name in ('PENMAN_RE', 'TRIPLE_RE'):
            self.compiled[name] = self._fold_compiled(name)
        self.spec = json.loads((SPEC / 'lexical.json').read_text())

    def _fold_compiled(self, const: str) -> CompiledPattern:
        expr = self.repo.constant('penman._lexer', const)
        pat, flags = self._fold_regex_expr(expr, {})
        return CompiledPattern(const, pat, flags, norm(expr)[:80])

    def _fold_regex_expr(self, expr: ast.AST, env: dict) -> Tuple[str, int]:
        """expr evaluates to a compiled pattern: re.compile(<foldable>, flags) or a call of a
        module-level helper whose body is straight-line assignments ending in such a return."""
        if not isinstance(expr, ast.Call):
            raise AnalysisError(f'pattern constant is not a call: {norm(expr)[:60]}')
        fn = expr.func
        if isinstance(fn, ast.Attribute) and isinstance(fn.value, ast.Name) and fn.value.id == 're' \
                and fn.attr == 'compile':
            if not expr.args:
                raise AnalysisError('re.compile without pattern argument')
            try:
                pat = fold(expr.args[0], env, self.repo, self.module)
            except Unfoldable as exc:
                raise AnalysisError(f'cannot fold regex pattern expression ({exc}): {norm(expr.args[0])[:80]}')
            flags_expr = expr.args[1] if len(expr.args) > 1 else next(
                (k.value for k in expr.keywords if k.arg == 'flags'), None)
            if isinstance(flags_expr, ast.Name) and flags_expr.id in env:
                flags_expr = ast.Constant(value=int(env[flags_expr.id]))
            if not isinstance(pat, str):
                raise AnalysisError('folded regex pattern is not a string')
            return pat, fold_flags(flags_expr)
        if isinstance(fn, ast.Name) and fn.id in self.module.functions:
            from .src import eval_const_function
            f = self.module.functions[fn.id]
            try:
                args = []
                for x in expr.args:
                    if isinstance(x, ast.Starred):
                        args.extend(fold(x.value, env, self.repo, self.module))
                    else:
                        args.append(fold(x, env, self.repo, self.module))
                kwargs = {kw.arg: fold(kw.value, env, self.repo, self.module) for kw in expr.keywords}
                res = eval_const_function(self.repo, self.module, f.node, args, kwargs)
            except Unfoldable as exc:
                raise AnalysisError(f'cannot evaluate {fn.id}(...) on its constant arguments: {exc}')
            except (KeyError, TypeError, IndexError) as exc:
                raise AnalysisError(f'evaluating {fn.id}(...) failed: {type(exc).__name__}: {exc}')
            if res[0] == 'call':
                return self._fold_regex_expr(res[1], res[2])
            raise AnalysisError(f'{fn.id}(...) does not return a compiled pattern')
        # NAME = functools.partial(re.compile, flags=...)  used as NAME(pattern)
        if isinstance(fn, ast.Name) and fn.id in self.module.constants:
            c = self.module.constants[fn.id]
            if isinstance(c, ast.Call) and norm(c.func) in ('functools.partial', 'partial') and c.args and norm(c.args[0]) == 're.compile':
                call = ast.Call(func=c.args[0], args=list(c.args[1:]) + list(expr.args), keywords=list(c.keywords) + list(expr.keywords))
                return self._fold_regex_expr(call, env)
        raise AnalysisError(f'pattern constant built by an unknown callable: {norm(fn)}')

    # -- spec side -------------------------------------------------------------------------
    def line_alphabet(self) -> CS:
        return ~CS.of(*self.spec['line_excluded'])

    def blanks(self) -> CS:
        return CS.of(*self.spec['blanks'])

    def doc_lang(self, cls: str) -> Lang:
        return Lang.from_pattern(self.spec['classes'][cls], 0, f'doc:{cls}')

    def namechar(self) -> CS:
        return ~(self.blanks() | CS.of(*self.spec['delimiters']))


def restrict(lang: Lang, cs: CS) -> Lang:
    """The sub-language of strings over the alphabet cs."""
    def go(rx: Rx) -> Rx:
        if rx.kind == 'set':
            return Rx.chars(rx.cs & cs)
        if rx.kind == 'cat':
            return Rx.cat([go(i) for i in rx.items])
        if rx.kind == 'alt':
            return Rx.alt([go(i) for i in rx.items])
        if rx.kind == 'star':
            return Rx.star(go(rx.items[0]))
        return rx
    return Lang(go(lang.rx), lang.name, shortest=lang.shortest)


def deterministic(lang: Lang) -> Optional[str]:
    """None if the expression is 1-unambiguous (Glushkov-deterministic): in every reachable subset
    state no two distinct positions can consume the same character.  Otherwise a description."""
    from .rx import DFA, minterms
    nfa = lang.nfa
    blocks = minterms(nfa.charsets())
    seen = {}
    start = nfa.closure([nfa.start])
    seen[start] = True
    work = [start]
    while work:
        S = work.pop()
        for bi, blk in enumerate(blocks):
            lo = blk.iv[0][0]
            hits = [(q, dst) for q in S for cs, dst in nfa.tr[q] if lo in cs]
            if len(hits) > 1:
                return f'two positions can consume {blk.describe()}'
            if hits:
                T = nfa.closure([hits[0][1]], blk)
                if T not in seen:
                    seen[T] = True
                    work.append(T)
    return None


def all_repeats_greedy(sub) -> bool:
    from .rx import sre_c
    for op, av in sub:
        if op is sre_c.MIN_REPEAT:
            return False
        if getattr(sre_c, 'POSSESSIVE_REPEAT', None) is op:
            return False
        if op is sre_c.MAX_REPEAT:
            if not all_repeats_greedy(av[2]):
                return False
        elif op is sre_c.SUBPATTERN:
            if not all_repeats_greedy(av[3]):
                return False
        elif op is sre_c.BRANCH:
            if not all(all_repeats_greedy(b) for b in av[1]):
                return False
    return True
