"""E7 - propositional normaliser: python boolean expressions -> formulas over syntactic atoms,
with partial evaluation under an environment, truth-table equivalence / disjointness."""
from __future__ import annotations

import ast
import itertools
from typing import Callable, Dict, List, Optional, Set, Tuple

from .src import AnalysisError, norm

# formula: True | False | ('atom', key) | ('not', f) | ('and', [f]) | ('or', [f])


def _const(v) -> bool:
    return v is True or v is False


def mk_not(f):
    if f is True:
        return False
    if f is False:
        return True
    if isinstance(f, tuple) and f[0] == 'not':
        return f[1]
    return ('not', f)


def mk_and(fs):
    out = []
    for f in fs:
        if f is False:
            return False
        if f is True:
            continue
        out.append(f)
    if not out:
        return True
    return out[0] if len(out) == 1 else ('and', out)


def mk_or(fs):
    out = []
    for f in fs:
        if f is True:
            return True
        if f is False:
            continue
        out.append(f)
    if not out:
        return False
    return out[0] if len(out) == 1 else ('or', out)


class Abstractor:
    """Turns an expression into a formula.  `subst` maps local names to replacement ASTs (argument
    expressions, single-definition locals) or to the marker NONE for a literal None argument."""

    NONE = object()

    def __init__(self, subst: Optional[Dict[str, object]] = None, canon: Optional[Callable[[str], str]] = None,
                 nonnull: Optional[Callable[[ast.AST], bool]] = None):
        self.subst = subst or {}
        self.canon = canon or (lambda s: s)
        self.nonnull = nonnull or (lambda e: False)

    def rewrite(self, e: ast.AST) -> ast.AST:
        subst = self.subst

        class R(ast.NodeTransformer):
            def visit_Name(self, n):
                if n.id in subst:
                    v = subst[n.id]
                    if v is Abstractor.NONE:
                        return ast.Constant(value=None)
                    return v
                return n
        import copy
        return R().visit(copy.deepcopy(e))

    def formula(self, e: ast.AST):
        e = self.rewrite(e)
        return self._f(e)

    def _is_none(self, e) -> bool:
        return isinstance(e, ast.Constant) and e.value is None

    def _f(self, e):
        if isinstance(e, ast.BoolOp):
            parts = [self._f(v) for v in e.values]
            return mk_and(parts) if isinstance(e.op, ast.And) else mk_or(parts)
        if isinstance(e, ast.UnaryOp) and isinstance(e.op, ast.Not):
            return mk_not(self._f(e.operand))
        if isinstance(e, ast.Constant):
            return bool(e.value)
        if isinstance(e, ast.Compare):
            # chained comparison = conjunction of the links
            parts = []
            left = e.left
            operands = [e.left] + list(e.comparators)
            if len(e.ops) > 1 and all(isinstance(op, ast.Is) for op in e.ops) and any(self._is_none(x) for x in operands):
                # a is b is None: None is a singleton, so every operand is None
                return mk_and([self._link(x, ast.Is(), ast.Constant(value=None)) for x in operands if not self._is_none(x)])
            for op, right in zip(e.ops, e.comparators):
                parts.append(self._link(left, op, right))
                left = right
            return mk_and(parts)
        return ('atom', self.canon(norm(e)))

    def _link(self, l, op, r):
        if isinstance(op, (ast.Is, ast.IsNot)):
            if self._is_none(l) and self._is_none(r):
                v = True
            elif self._is_none(l) or self._is_none(r):
                other = r if self._is_none(l) else l
                if isinstance(other, ast.Constant):
                    v = other.value is None
                elif self.nonnull(other):
                    v = False
                else:
                    v = ('atom', self.canon(f'{norm(other)} is None'))
            else:
                v = ('atom', self.canon(f'{norm(l)} is {norm(r)}'))
            return mk_not(v) if isinstance(op, ast.IsNot) else v
        if isinstance(op, (ast.Eq, ast.NotEq)):
            a, b = sorted([norm(l), norm(r)])
            if isinstance(l, ast.Constant) and isinstance(r, ast.Constant):
                v = l.value == r.value
            else:
                v = ('atom', self.canon(f'{a} == {b}'))
            return mk_not(v) if isinstance(op, ast.NotEq) else v
        if isinstance(op, (ast.In, ast.NotIn)):
            if isinstance(r, (ast.Set, ast.Tuple, ast.List)) and len(r.elts) == 1:
                v = self._link(l, ast.Eq(), r.elts[0])          # x in {y}  ==  x == y
                return mk_not(v) if isinstance(op, ast.NotIn) else v
            v = ('atom', self.canon(f'{norm(l)} in {norm(r)}'))
            return mk_not(v) if isinstance(op, ast.NotIn) else v
        return ('atom', self.canon(norm(ast.Compare(left=l, ops=[op], comparators=[r]))))


def atoms_of(f, acc=None) -> List[str]:
    acc = acc if acc is not None else []
    if isinstance(f, tuple):
        if f[0] == 'atom':
            if f[1] not in acc:
                acc.append(f[1])
        elif f[0] == 'not':
            atoms_of(f[1], acc)
        else:
            for x in f[1]:
                atoms_of(x, acc)
    return acc


def evaluate(f, env: Dict[str, bool]) -> bool:
    if f is True or f is False:
        return f
    k = f[0]
    if k == 'atom':
        return env[f[1]]
    if k == 'not':
        return not evaluate(f[1], env)
    if k == 'and':
        return all(evaluate(x, env) for x in f[1])
    if k == 'or':
        return any(evaluate(x, env) for x in f[1])
    raise AnalysisError(f'bad formula {f}')


def assignments(fs, limit: int = 10):
    names: List[str] = []
    for f in fs:
        atoms_of(f, names)
    if len(names) > limit:
        raise AnalysisError(f'too many boolean atoms ({len(names)})')
    for vals in itertools.product([False, True], repeat=len(names)):
        yield dict(zip(names, vals))


def equivalent(f, g) -> Optional[Dict[str, bool]]:
    """None if equivalent, else a distinguishing assignment."""
    for env in assignments([f, g]):
        if evaluate(f, env) != evaluate(g, env):
            return env
    return None


def partition_check(fs) -> Optional[Tuple[Dict[str, bool], List[bool]]]:
    """None if exactly one of the formulas holds under every assignment."""
    for env in assignments(fs):
        vals = [evaluate(f, env) for f in fs]
        if sum(vals) != 1:
            return env, vals
    return None


def show(f) -> str:
    if f is True:
        return 'True'
    if f is False:
        return 'False'
    k = f[0]
    if k == 'atom':
        return f[1]
    if k == 'not':
        return f'not ({show(f[1])})'
    return '(' + (f' {k} ').join(show(x) for x in f[1]) + ')'
