"""Self-validation of the checker (thorough tier): see DESIGN.md section 8.  Filled in later."""


def run_selfval(prop, rule_ids, base_clean):
    return {'summary': 'not-run', 'broken': [], 'variants': []}
