"""Self-validation of the checker (thorough tier, DESIGN.md section 8).

Variants of the *current* source tree are built in a scratch directory (removed afterwards) and the
property's rules are run on each:
  must fire   - AST-located edit recipes (pv/selfval_recipes.py) and the seeded breaking changes kept under
                /verif/seeded/<id>/patch.diff that belong to the property;
  must stay silent - behaviour-preserving edit recipes and the refactorings kept under /verif/refactors/.
A variant that cannot be applied to the current tree (the code it edits has changed) is skipped, not
failed.  A must-fire variant that is not reported, or a silent variant that is reported, makes the run
exit 2 (the checker is broken) - never 1.
"""
from __future__ import annotations

import ast
import json
import os
import shutil
import subprocess
import tempfile
from concurrent.futures import ProcessPoolExecutor
from pathlib import Path
from typing import Dict, List, Optional, Tuple

VERIF = Path(__file__).resolve().parent.parent


def _norm_src(src: str) -> str:
    return ast.unparse(ast.parse(src))


def apply_recipe(root: Path, relpath: str, qualname: str, old: str, new: str) -> bool:
    """Replace the statement/expression of function `qualname` whose normalised source equals `old`
    by `new` (AST-located: insensitive to layout and comments).  False if not found."""
    p = root / relpath
    if not p.exists():
        return False
    text = p.read_text()
    tree = ast.parse(text)
    target = None
    parts = qualname.split('.') if qualname else []

    def find(body, names):
        for st in body:
            if isinstance(st, (ast.FunctionDef, ast.ClassDef, ast.AsyncFunctionDef)) and st.name == names[0]:
                is_setter = isinstance(st, ast.FunctionDef) and any(isinstance(d, ast.Attribute) and d.attr == 'setter' for d in st.decorator_list)
                if names[1:] == ['setter']:
                    if is_setter:
                        return st
                    continue
                if is_setter:
                    continue
                if len(names) == 1:
                    return st
                return find(st.body, names[1:])
            if isinstance(st, (ast.If, ast.Try)):
                r = find([x for x in ast.walk(st) if isinstance(x, (ast.FunctionDef, ast.ClassDef)) and x is not st][:0], names)
        return None
    scope = find(tree.body, parts) if parts else tree
    if scope is None:
        return False
    try:
        want = _norm_src(old)
    except SyntaxError:
        want = None
    try:
        want_expr = ast.unparse(ast.parse(old, mode='eval').body)
    except SyntaxError:
        want_expr = None
    for n in ast.walk(scope):
        if isinstance(n, ast.stmt) and want is not None:
            try:
                if ast.unparse(n) == want:
                    target = n
                    break
            except Exception:
                pass
        if isinstance(n, ast.expr) and want_expr is not None:
            try:
                if ast.unparse(n) == want_expr:
                    target = n
                    break
            except Exception:
                pass
    if target is None:
        return False
    lines = text.splitlines(keepends=True)
    # character offsets (ast columns are utf-8 byte offsets; penman sources are ASCII on these lines)
    start = sum(len(l) for l in lines[:target.lineno - 1]) + target.col_offset
    end = sum(len(l) for l in lines[:target.end_lineno - 1]) + target.end_col_offset
    indent = ' ' * target.col_offset if isinstance(target, ast.stmt) else ''
    new_lines = new.split('\n')
    repl = new_lines[0] + ''.join('\n' + (indent + l if l else l) for l in new_lines[1:])
    text2 = text[:start] + repl + text[end:]
    try:
        ast.parse(text2)
    except SyntaxError:
        return False
    p.write_text(text2)
    return True


def apply_patch(root: Path, patch: Path) -> bool:
    r = subprocess.run(['git', 'apply', '--unsafe-paths', f'--directory={root}', str(patch)], cwd='/', capture_output=True, text=True)
    if r.returncode == 0:
        return True
    r = subprocess.run(['patch', '-p1', '-s', '--dry-run', '-i', str(patch)], cwd=root, capture_output=True, text=True)
    if r.returncode != 0:
        return False
    r = subprocess.run(['patch', '-p1', '-s', '-i', str(patch)], cwd=root, capture_output=True, text=True)
    return r.returncode == 0


def _worker(job: dict) -> dict:
    import sys
    sys.path.insert(0, str(VERIF))
    from pv.core import Ctx
    from pv.src import AnalysisError, Repo
    from pv import rules  # noqa
    tmp = Path(tempfile.mkdtemp(prefix='pv-selfval-'))
    out = {'id': job['id'], 'kind': job['kind'], 'applied': False, 'fired': [], 'errors': []}
    try:
        shutil.copytree(Path(job['src_root']) / 'penman', tmp / 'penman')
        if job.get('patch'):
            ok = apply_patch(tmp, Path(job['patch']))
        else:
            ok = True
            for ed in job['edits']:
                ok = ok and apply_recipe(tmp, ed['file'], ed['func'], ed['old'], ed['new'])
        out['applied'] = bool(ok)
        if not ok:
            return out
        try:
            ctx = Ctx(Repo(str(tmp)), job.get('tier', 'quick'))
        except AnalysisError as exc:
            out['errors'].append(f'model: {exc}')
            return out
        for rid in job['rules']:
            try:
                rep = ctx.run_rule(rid)
                for v in rep.violations():
                    out['fired'].append([rid, v.key])
            except AnalysisError as exc:
                out['errors'].append(f'{rid}: {str(exc)[:160]}')
            except Exception as exc:      # noqa
                out['errors'].append(f'{rid}: internal {type(exc).__name__}: {str(exc)[:120]}')
        return out
    finally:
        shutil.rmtree(tmp, ignore_errors=True)


def run_selfval(prop: str, rule_ids: List[str], base_clean: bool, src_root: Optional[str] = None, jobs: int = 16) -> dict:
    if not base_clean:
        return {'summary': 'skipped (the analysed tree itself has violations)', 'broken': [], 'variants': []}
    from .selfval_recipes import RECIPES
    src_root = src_root or os.environ.get('VERIF_REPO') or '/repo'
    work: List[dict] = []
    expect: Dict[str, dict] = {}
    # quick-tier bounds inside variants keep the corpus fast; rules whose bounds matter are listed explicitly
    for r in RECIPES:
        if not (set(r['rules']) & set(rule_ids)):
            continue
        rules = [x for x in r['rules'] if x in rule_ids]
        jid = f'recipe:{r["id"]}'
        work.append({'id': jid, 'kind': r['kind'], 'src_root': src_root, 'edits': r['edits'], 'rules': rules})
        expect[jid] = r
    seeded = VERIF / 'seeded'
    if seeded.is_dir():
        for d in sorted(seeded.iterdir()):
            mf = d / 'meta.json'
            if not mf.exists() or not (d / 'patch.diff').exists():
                continue
            meta = json.loads(mf.read_text())
            props = [meta.get('property')] + list(meta.get('also_breaks', []))
            if prop not in props:
                continue
            jid = f'seed:{d.name}'
            work.append({'id': jid, 'kind': 'fire', 'src_root': src_root, 'patch': str(d / 'patch.diff'), 'rules': list(rule_ids)})
            expect[jid] = {'kind': 'fire', 'expect_rule': None, 'allow_undecided': meta.get('checker_outcome') == 'undecided'}
    refs = VERIF / 'refactors'
    if refs.is_dir():
        for d in sorted(refs.iterdir()):
            if (d / 'patch.diff').exists():
                jid = f'refactor:{d.name}'
                work.append({'id': jid, 'kind': 'silent', 'src_root': src_root, 'patch': str(d / 'patch.diff'), 'rules': list(rule_ids)})
                expect[jid] = {'kind': 'silent'}
    results: List[dict] = []
    if work:
        with ProcessPoolExecutor(max_workers=min(jobs, len(work))) as ex:
            results = list(ex.map(_worker, work))
    broken: List[str] = []
    rows = []
    n_fire = n_silent = n_skip = n_undecided = 0
    for res in results:
        exp = expect[res['id']]
        row = {'id': res['id'], 'kind': res['kind'], 'applied': res['applied'], 'fired': res['fired'][:4], 'errors': res['errors'][:3]}
        if not res['applied']:
            n_skip += 1
            row['verdict'] = 'skipped (does not apply to the current tree)'
        elif res['kind'] == 'fire':
            ok = bool(res['fired'])
            if ok and exp.get('expect_rule'):
                ok = any(f[0] == exp['expect_rule'] and (exp.get('expect_key', '') in f[1]) for f in res['fired'])
            if ok:
                n_fire += 1
                row['verdict'] = 'fired as required'
            elif res['errors'] and exp.get('allow_undecided'):
                n_undecided += 1
                row['verdict'] = 'fails closed as recorded: the variant replaces the analysed algorithm, the check exits 2 (undecided), never 0'
            elif res['errors']:
                n_undecided += 1
                row['verdict'] = 'not reported: the analysis could not decide (ANALYSIS-ERROR on the variant)'
                broken.append(f'{res["id"]}: must fire but the rules only produced analysis errors: {res["errors"][:1]}')
            else:
                row['verdict'] = 'MISSED'
                broken.append(f'{res["id"]}: must fire on {exp.get("expect_rule") or "some rule of " + prop} but nothing was reported')
        else:
            if res['fired']:
                row['verdict'] = 'FALSE ALARM'
                broken.append(f'{res["id"]}: behaviour-preserving variant reported by {res["fired"][:2]}')
            elif res['errors']:
                n_undecided += 1
                row['verdict'] = 'undecided (fail-closed ANALYSIS-ERROR on a behaviour-preserving variant)'
            else:
                n_silent += 1
                row['verdict'] = 'silent as required'
        rows.append(row)
    return {
        'summary': f'{n_fire} fired, {n_silent} silent, {n_undecided} undecided, {n_skip} skipped, {len(broken)} broken',
        'broken': broken, 'variants': rows,
        'counts': {'must_fire_ok': n_fire, 'must_stay_silent_ok': n_silent, 'undecided': n_undecided, 'skipped': n_skip,
                   'broken': len(broken), 'total': len(results)},
    }
