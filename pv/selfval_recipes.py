"""Edit recipes for self-validation (thorough tier).  Each edit is AST-located: `old` is matched against the
normalised source of the statements / expressions of one function (or of the module when func is ''),
so re-formatting the repository does not break a recipe; if the code was rewritten the recipe is skipped.

kind 'fire'   : the variant breaks the property; the named rule must report it (key substring optional)
kind 'silent' : the variant preserves behaviour; none of the rules listed may report anything
"""

LX, PA, FM, LA, TR, GR, MO, MA, CO, TE, SU, CD = ('penman/_lexer.py', 'penman/_parse.py', 'penman/_format.py', 'penman/layout.py',
                                                  'penman/transform.py', 'penman/graph.py', 'penman/model.py', 'penman/__main__.py',
                                                  'penman/constant.py', 'penman/tree.py', 'penman/surface.py', 'penman/codec.py')


def E(file, func, old, new):
    return {'file': file, 'func': func, 'old': old, 'new': new}


def fire(id, rule, edits, key='', also=()):
    return {'id': id, 'kind': 'fire', 'rules': [rule] + list(also), 'expect_rule': rule, 'expect_key': key, 'edits': edits}


def silent(id, rules, edits):
    return {'id': id, 'kind': 'silent', 'rules': list(rules), 'edits': edits}


RECIPES = [
    # ---- must fire ------------------------------------------------------------------------------
    fire('R1-append-epidata', 'R1', [E(LA, '_interpret_node', 'epidata.insert(0, (instance, []))', 'epidata.append((instance, []))')]),
    fire('R1b-append-both', 'R1b', [E(LA, '_interpret_node', 'epidata.insert(0, (instance, []))', 'epidata.append((instance, []))'),
                                    E(LA, '_interpret_node', 'triples.insert(0, instance)', 'triples.append(instance)')]),
    fire('R2-unguarded-load', 'R2', [E(LA, 'get_pushed_variable', 'g.epidata.get(triple, [])', 'g.epidata[triple]')], key='get_pushed_variable'),
    fire('R2-unguarded-del', 'R2', [E(TR, 'dereify_edges', 'if triple in new_epidata:\n    del new_epidata[triple]', 'del new_epidata[triple]')]),
    fire('R3-top-dropped', 'R3', [E(TR, 'reify_attributes', 'Graph(new_triples, top=g.top, epidata=new_epidata, metadata=g.metadata)',
                                   'Graph(new_triples, epidata=new_epidata, metadata=g.metadata)')], key='reify_attributes'),
    fire('R4-truthiness-format', 'R4', [E(FM, '_format_edge', "target is None or target == ''", 'not target')], key='_format_edge'),
    fire('R4-truthiness-configure', 'R4', [E(LA, '_configure_node', "target is None or target == ''", 'not target')], key='_configure_node'),
    fire('R74-swallowed-decode-error', 'R74', [E(PA, 'parse', 'return _parse(tokens)', 'try:\n    return _parse(tokens)\nexcept Exception:\n    return None')]),
    silent('R74-widened-int-handler', ['R74'], [E(LA, 'node_contexts', 'try:\n    for epi in g.epidata.get(triple, []):\n        if isinstance(epi, Pop):\n            stack.pop()\nexcept IndexError:\n    break',
                                                  'try:\n    for epi in g.epidata.get(triple, []):\n        if isinstance(epi, Pop):\n            stack.pop()\nexcept Exception:\n    break')]),
    fire('R5-inlined-deinvert', 'R5', [E(LA, '_interpret_node', 'triple = model.deinvert(triple)', 'triple = model.invert(triple)')]),
    fire('R6-splitlines', 'R6', [E(LX, 'lex', r"lines = re.split('\\r\\n|\\r|\\n', lines)", 'lines = lines.splitlines()')]),
    fire('R6-split-lf', 'R6', [E(LX, 'lex', r"lines = re.split('\\r\\n|\\r|\\n', lines)", "lines = lines.split('\\n')")]),
    fire('R6-cr-before-crlf', 'R6', [E(LX, 'lex', r"lines = re.split('\\r\\n|\\r|\\n', lines)", r"lines = re.split('\\r|\\n|\\r\\n', lines)")]),
    fire('R7-overwrite-in-process', 'R7', [E(MA, 'process', 'exitcode |= _check(g, model)', 'exitcode = _check(g, model)')], key='process'),
    fire('R7-count-as-status', 'R7', [E(MA, '_check', 'return 1', 'return len(errors)')]),
    fire('R8c-nonspace-catchall', 'R8c', [E(LX, '', r"'[^ \\t\\r\\n\\v\\f]'", r"'\\S'")]),
    fire('R8d-symbol-with-tilde', 'R8d', [E(LX, '', r"""'[^ \\t\\r\\n\\v\\f"()\\/:~]+'""", r"""'[^ \\t\\r\\n\\v\\f"()\\/:]+'""")], key='SYMBOL'),
    fire('R8d-string-without-escapes', 'R8d', [E(LX, '', r"""'"[^"\\\\]*(?:\\\\.[^"\\\\]*)*"'""", r"""'"[^"]*"'""")], key='STRING'),
    fire('R8b-nullable-symbol', 'R8b', [E(LX, '', r"""'[^ \\t\\r\\n\\v\\f"()\\/:~]+'""", r"""'[^ \\t\\r\\n\\v\\f"()\\/:~]*'""")]),
    fire('R8a-capture-group', 'R8a', [E(LX, '', r"'~(?:[a-zA-Z]\\.?)?[0-9]+(?:,[0-9]+)*'", r"'~([a-zA-Z]\\.?)?[0-9]+(?:,[0-9]+)*'")]),
    fire('R9-error-not-raised', 'R9', [E(PA, '_parse_edge', "raise tokens.error('Expected: SYMBOL, STRING, LPAREN', token=_next)",
                                        "tokens.error('Expected: SYMBOL, STRING, LPAREN', token=_next)")]),
    fire('R10-string-not-accepted', 'R10', [E(PA, '_parse_triple', "tokens.accept('SYMBOL', 'STRING')", "tokens.accept('SYMBOL')")]),
    fire('R12-model-dropped', 'R12', [E(MA, '_process_out', 'layout.configure(g, model=model)', 'layout.configure(g)')]),
    fire('R12-model-dropped-codec', 'R12', [E(CD, 'PENMANCodec.encode', 'layout.configure(g, top=top, model=self.model)', 'layout.configure(g, top=top)')]),
    fire('R13-unsorted-unreachable', 'R13', [E(MO, 'Model.errors', 'sorted(unreachable)', 'unreachable')]),
    fire('R14-no-deepcopy', 'R14', [E(LA, 'reconfigure', 'p = copy.deepcopy(g)', 'p = g')], key='reconfigure'),
    fire('R14-shallow-copy', 'R14', [E(LA, 'reconfigure', 'p = copy.deepcopy(g)', 'p = copy.copy(g)')], key='reconfigure'),
    fire('R14-aliased-epidata', 'R14', [E(TR, 'reify_edges', 'new_epidata = dict(g.epidata)', 'new_epidata = g.epidata')], key='reify_edges'),
    fire('R14-or-without-copy', 'R14', [E(GR, 'Graph.__or__', 'g = copy.deepcopy(self)', 'g = self')]),
    fire('R15-pop-identity', 'R15', [E(LA, '_configure_node', 'isinstance(datum, Pop)', 'datum is POP')]),
    fire('R16-unguarded-next', 'R16', [E(PA, '_parse_node', "if tokens.peek().type == 'ALIGNMENT':\n    concept += tokens.next().text",
                                        'concept += tokens.next().text')]),
    fire('R19-strings-rejected-as-target', 'R19', [E(PA, '_parse_edge', "next_type in ('SYMBOL', 'STRING')", "next_type in ('SYMBOL',)")]),
    fire('R19-iterparse-guard', 'R19', [E(PA, 'iterparse', "tokens and tokens.peek().type in ('COMMENT', 'LPAREN')", 'tokens')]),
    fire('R20-empty-joiner', 'R20', [E(FM, '_format_node', "joiner = '\\n' + ' ' * column", "joiner = ' ' * column")]),
    fire('R20-option-in-text', 'R20', [E(FM, '_format_edge', "return f'{role}{sep}{target!s}'", "return f'{role}{sep}{target!s}' if indent != 0 else f'{role}{sep}{target!s} '")]),
    fire('R21-negated-edges', 'R21', [E(GR, 'Graph.edges', 't[1] != CONCEPT_ROLE and t[2] in variables', 't[1] != CONCEPT_ROLE and t[2] not in variables')]),
    fire('R21-instances-in-edges', 'R21', [E(GR, 'Graph.edges', 't[1] != CONCEPT_ROLE and t[2] in variables', 't[2] in variables')]),
    fire('R22-top-guard-dropped', 'R22', [E(GR, 'Graph.top.setter', "if top is not None and top not in self.variables():\n    raise GraphError('top must be a valid node')", 'pass')]),
    fire('R23lex-line-numbers-from-zero', 'R23lex', [E(LX, '_lex', 'enumerate(lines, 1)', 'enumerate(lines)')]),
    fire('R23lex-offset-is-end', 'R23lex', [E(LX, '_lex', 'm.start()', 'm.end()')]),
    fire('R23err-offset-of-last', 'R23err', [E(LX, 'TokenIterator.error', 'offset = self._last.offset + len(self._last.text)', 'offset = self._last.offset')]),
    fire('R24-interpret-after-reify', 'R24', [E(MA, '_process_in', 'g = layout.interpret(t, model)', 'g = layout.interpret(t, model)\ng = transform.reify_attributes(g)'),
                                              E(MA, '_process_in', "if normalize_options['reify_attributes']:\n    g = transform.reify_attributes(g)", "if normalize_options['reify_attributes']:\n    g = transform.reify_edges(g, model)")],
         also=('R25',)),
    fire('R25-crossed-options', 'R25', [E(MA, '_process_in', 'g = transform.reify_edges(g, model)', 'g = transform.dereify_edges(g, model)')]),
    fire('R26-concept-sorted', 'R26', [E(LA, '_rearrange', 'branches[:] = first + sorted(rest, key=key)', 'branches[:] = sorted(first + rest, key=key)')]),
    fire('R27-all-markers-stripped', 'R27', [E(LA, 'reconfigure', 'isinstance(epi, LayoutMarker)', 'isinstance(epi, Epidatum)')]),
    fire('R28-wrong-slice', 'R28', [E(MO, 'Model.invert_role', 'inverse = role[:-3]', 'inverse = role[:-2]')]),
    fire('R29-suffix-only', 'R29', [E(MO, 'Model.invert_role', "not self._has_role(role) and role.endswith('-of')", "role.endswith('-of')")]),
    fire('R29-has-role-double', 'R29', [E(MO, 'Model.has_role', "role.endswith('-of') and self._has_role(role[:-3])", "role.endswith('-of')")]),
    fire('R30-branch-dropped', 'R30', [E(TR, '_canonicalize_node', 'canonical_edges.append((canonical_role, tgt))',
                                        'if canonical_role:\n    canonical_edges.append((canonical_role, tgt))')]),
    fire('R33-pops-lost', 'R33', [E(TR, '_attr_markers', 'node_epis.extend(pops)', 'pass')]),
    fire('R34-non-ascii-output', 'R34', [E(CO, 'quote', 'json.dumps(str(constant))', 'json.dumps(str(constant), ensure_ascii=False)')]),
    fire('R34-true-reaches-json', 'R34', [E(CO, 'evaluate', "('true', 'false', 'null')", "('false', 'null')")]),
    fire('R37-rewritten-input', 'R37', [E(PA, 'parse_triples', 'tokens = lex(s, pattern=TRIPLE_RE)', 'tokens = lex(s.strip(), pattern=TRIPLE_RE)')]),
    fire('R38-fixed-check-dropped', 'R38', [E(TR, '_dereify_agenda', 'var not in fixed and len(other.get(var, [])) == 2 and model.is_concept_dereifiable(instance[2])',
                                            'len(other.get(var, [])) == 2 and model.is_concept_dereifiable(instance[2])')]),
    fire('R39-sorted-triples', 'R39', [E(GR, 'Graph._filter_triples', 'triples = list(self.triples)', 'triples = sorted(self.triples)')]),
    fire('R40-instances-unchecked', 'R40', [E(MO, 'Model.errors', 'not self.has_role(role)', 'role != CONCEPT_ROLE and (not self.has_role(role))')]),
    fire('R41-colon-kept', 'R41', [E(FM, 'format_triples', 'role.lstrip(\':\')', 'role')], also=('R56',)),
    fire('R42-empty-output-skipped', 'R42', [E(MA, 'process', 'print(s, file=out)', 'if s:\n    print(s, file=out)')]),
    fire('R43-last-clobbered', 'R43', [E(LX, 'TokenIterator.next', 'current = self._next', 'current = self._last = self._next')]),
    fire('R44-early-false', 'R44', [E(LA, 'appears_inverted', 'variable = get_pushed_variable(g, triple)', 'variable = get_pushed_variable(g, triple)\nif variable is None and triple[0] == g.top:\n    return False')]),
    fire('R45-space-dropped', 'R45', [E(FM, 'format', "' ' + value if value else value", 'value')]),
    fire('R47-top-after-sort', 'R47', [E(LA, 'reconfigure', 'if top is None:\n    top = g.top', 'pass')]),
    fire('R50-constant-as-key', 'R50', [E(LA, '_configure_node', 'target in nodemap and nodemap[target] is None', 'nodemap.get(target) is None')]),
    fire('R51-first-quote', 'R51', [E(LA, '_process_atomic', "target.rindex('\"')", "target.index('\"', 1)")]),
    fire('R52-early-return', 'R52', [E(TE, 'Tree.reset_variables', 'self.node = _map_vars(self.node, varmap)', 'if varmap:\n    self.node = _map_vars(self.node, varmap)\nelse:\n    return')]),
    fire('R54-sources-only', 'R54', [E(GR, 'Graph.__isub__', 'set((v for t in self.triples for v in t[::2]))', 'set((t[0] for t in self.triples))')]),
    fire('R55-all-triples', 'R55', [E(GR, 'Graph.reentrancies', 'for t in self.edges():\n    entrancies[t.target] += 1',
                                      'variables = self.variables()\nfor t in self.triples:\n    if t[2] in variables:\n        entrancies[t[2]] += 1')]),
    fire('R56-postprocessed', 'R56', [E(FM, 'format_triples', 'return delim.join(conjunction)', "return ' '.join(delim.join(conjunction).split())")]),
    fire('R18-other-exception', 'R18', [E(PA, '_parse_edge', "raise tokens.error('Expected: SYMBOL, STRING, LPAREN', token=_next)",
                                          "raise ValueError('Expected: SYMBOL, STRING, LPAREN')")]),
    fire('R48-memo-keyed-by-stripped-role', 'R48', [E(TR, '_canonicalize_node', 'canonical_role = model.canonicalize_role(role) + tilde + alignment',
                                                     'canonical_role = _seen.get(role)\nif canonical_role is None:\n    canonical_role = model.canonicalize_role(role) + tilde + alignment\n    _seen[role] = canonical_role'),
                                                   E(TR, '_canonicalize_node', 'canonical_edges = []', 'canonical_edges = []\n_seen = {}')]),
    # ---- must stay silent -----------------------------------------------------------------------
    silent('S-span0', ['R23lex'], [E(LX, '_lex', 'm.start()', 'm.span()[0]')]),
    silent('S-group0', ['R23lex'], [E(LX, '_lex', 'm.group()', 'm.group(0)')]),
    silent('S-accumulate-long-form', ['R7'], [E(MA, 'process', 'exitcode |= _check(g, model)', 'exitcode = exitcode | _check(g, model)')]),
    silent('S-guard-instead-of-get', ['R2'], [E(LA, 'get_pushed_variable', 'g.epidata.get(triple, [])', '(g.epidata[triple] if triple in g.epidata else [])')]),
    silent('S-isinstance-tuple', ['R15', 'R36'], [E(LA, 'node_contexts', 'isinstance(epi, Pop)', 'isinstance(epi, (Pop,))')]),
    silent('S-equivalent-terminator-regex', ['R6'], [E(LX, 'lex', r"lines = re.split('\\r\\n|\\r|\\n', lines)", r"lines = re.split('\\r\\n?|\\n', lines)")]),
    silent('S-edges-conjuncts-swapped', ['R21'], [E(GR, 'Graph.edges', 't[1] != CONCEPT_ROLE and t[2] in variables', 't[2] in variables and t[1] != CONCEPT_ROLE')]),
    silent('S-inverted-conjuncts-swapped', ['R29'], [E(MO, 'Model.is_role_inverted', "not self._has_role(role) and role.endswith('-of')",
                                                       "role.endswith('-of') and (not self._has_role(role))")]),
    silent('S-ensure-ascii-explicit', ['R34'], [E(CO, 'quote', 'json.dumps(str(constant))', 'json.dumps(str(constant), ensure_ascii=True)')]),
    silent('S-top-none-test-reordered', ['R22'], [E(GR, 'Graph.top.setter', 'top is not None and top not in self.variables()', 'not (top is None or top in self.variables())')]),
    silent('S-equivalent-symbol-class', ['R8d', 'R8e', 'R8c', 'R8f'], [E(LX, '', r"""'[^ \\t\\r\\n\\v\\f"()\\/:~]+'""", r"""'[^\\x20\\t\\r\\n\\x0b\\x0c"()/:~]+'""")]),
    silent('S-status-bool', ['R7'], [E(MA, '_check', 'return 1', 'return True')]),
    silent('S-reify-edges-local-copy', ['R14', 'R2'], [E(TR, 'reify_edges', 'new_epidata = dict(g.epidata)', 'new_epidata = {t: e for t, e in g.epidata.items()}')]),
    silent('S-sorted-copy-in-reconfigure', ['R26', 'R14', 'R47'], [E(LA, 'reconfigure', 'p.triples.sort(key=_key)', 'p.triples.sort(key=_key, reverse=False)')]),
]
