"""E8 - driver: runs the rules registered for a property, writes evidence, applies the
known-findings file, prints VIOLATION / KNOWN-FINDING / ANALYSIS-ERROR lines, sets the exit code.

exit 0  property held on everything analysed (KNOWN-FINDING lines possible)
exit 1  at least one violation that /verif/known_findings.json does not list
exit 2  the checker cannot do its job (ANALYSIS-ERROR ...)
"""
from __future__ import annotations

import argparse
import json
import os
import sys
import time
import traceback
from pathlib import Path
from typing import Dict, List

VERIF = Path(__file__).resolve().parent.parent
sys.path.insert(0, str(VERIF))

from pv.core import Ctx, EXCEPTION, INFO, OK, RULE_TITLES, VIOLATION  # noqa: E402
from pv.src import AnalysisError, Repo                                   # noqa: E402
from pv import rules  # noqa: E402,F401  (registers all rules)
from pv.props import PROPS                                                # noqa: E402

EVIDENCE = VERIF / 'evidence'
KNOWN = VERIF / 'known_findings.json'


def load_known() -> dict:
    if KNOWN.exists():
        return json.loads(KNOWN.read_text())
    return {'known': [], 'fixed': []}


def is_known(known: dict, prop: str, inst) -> dict | None:
    for k in known.get('known', []):
        if k.get('property') == prop and k.get('rule') == inst.rule and k.get('key') == inst.key:
            return k
    return None


def run_property(prop: str, tier: str, repo_root: str | None = None, write: bool = True,
                 selfcheck: bool = True) -> int:
    t0 = time.time()
    seed = int(os.environ.get('VERIF_SEED', '0') or 0)
    if prop not in PROPS:
        print(f'ANALYSIS-ERROR property={prop} not claimed (see MANIFEST.not_applicable)')
        return 2
    spec = PROPS[prop]
    errors: List[str] = []
    reports = []
    sv = None
    try:
        repo = Repo(repo_root)
        ctx = Ctx(repo, tier)
    except AnalysisError as exc:
        print(f'ANALYSIS-ERROR property={prop} {exc}')
        return 2
    rule_ids = list(spec['rules']) + (list(spec.get('thorough_rules', [])) if tier == 'thorough' else [])
    for rid in rule_ids:
        # each rule fails closed on its own: a definite violation found by another rule is still reported
        try:
            reports.append(ctx.run_rule(rid))
        except AnalysisError as exc:
            errors.append(f'{rid}: {exc}')
        except Exception:   # a traceback must never look like a violation
            errors.append(f'{rid}: internal error in the checker:\n{traceback.format_exc()}')
    if tier == 'thorough' and selfcheck and not errors:
        try:
            from pv.selfval import run_selfval
            base_clean = not any(r.violations() for r in reports)
            sv = run_selfval(prop, rule_ids, base_clean)
        except AnalysisError as exc:
            errors.append(f'self-validation: {exc}')
        except Exception:
            errors.append(f'self-validation: internal error:\n{traceback.format_exc()}')

    known = load_known()
    unlisted, listed = [], []
    for rep in reports:
        for inst in rep.violations():
            k = is_known(known, prop, inst)
            (listed if k else unlisted).append((rep, inst, k))

    replay_dir = EVIDENCE / 'replay'
    lines = []
    for rep, inst, k in listed:
        lines.append(f'KNOWN-FINDING: property={prop} {inst.rule} {inst.key} -- {k.get("what", inst.msg)}')
    for n, (rep, inst, _) in enumerate(unlisted, 1):
        path = replay_dir / f'{prop}-{inst.rule}-{n}.json'
        if write:
            replay_dir.mkdir(parents=True, exist_ok=True)
            path.write_text(json.dumps({
                'property': prop, 'rule': inst.rule, 'rule_title': rep.title, 'key': inst.key,
                'where': inst.where, 'message': inst.msg, 'extra': inst.extra,
                'replay': f'bin/vcheck --replay {path}'}, indent=1, default=str))
        lines.append(f'VIOLATION property={prop} replay={path}')
        lines.append(f'  rule {inst.rule} ({rep.title})')
        lines.append(f'  at   {inst.where}')
        lines.append(f'  key  {inst.key}')
        if inst.msg:
            lines.append(f'  why  {inst.msg}')

    wall = time.time() - t0
    if write:
        write_evidence(prop, spec, tier, seed, reports, ctx, wall, len(unlisted), len(listed), sv, errors)
    for ln in lines:
        print(ln)
    n_inst = sum(r.counted() for r in reports)
    print(f'{prop} [{tier}] rules={",".join(r.rule for r in reports)} instances={n_inst} '
          f'violations={len(unlisted)} known={len(listed)} wall={wall:.2f}s'
          + (f' selfval={sv["summary"]}' if sv else ''))
    for e in errors:
        print(f'ANALYSIS-ERROR property={prop} {e}')
    if unlisted:
        return 1
    if errors:
        return 2
    if sv and sv.get('broken'):
        for b in sv['broken']:
            print(f'ANALYSIS-ERROR property={prop} self-validation: {b}')
        return 2
    return 0


def write_evidence(prop, spec, tier, seed, reports, ctx, wall, n_viol, n_known, sv, errors=()):
    EVIDENCE.mkdir(exist_ok=True)
    samples, rules_out = [], []
    evaluations = distinct = 0
    obligations = discharged = 0
    assumptions: List[str] = list(spec.get('assumptions', []))
    seen_keys = set()
    for rep in reports:
        cnt = {OK: 0, VIOLATION: 0, EXCEPTION: 0, INFO: 0}
        for inst in rep.instances:
            cnt[inst.verdict] += 1
            evaluations += 1
            if inst.verdict in (OK, VIOLATION, EXCEPTION) and (inst.rule, inst.key) not in seen_keys:
                seen_keys.add((inst.rule, inst.key))
                distinct += 1
        for ob in rep.obligations:
            obligations += 1
            discharged += 1 if ob['discharged'] else 0
        rules_out.append({
            'rule': rep.rule, 'title': rep.title, 'floor': rep.floor,
            'instances': rep.counted(), 'ok': cnt[OK], 'violations': cnt[VIOLATION],
            'frozen_exceptions': cnt[EXCEPTION], 'informational': cnt[INFO],
            'analysed': rep.analysed, 'notes': rep.notes,
            'obligations': rep.obligations,
        })
        for inst in rep.instances[:60]:
            samples.append(f'{inst.where} | {inst.rule} | {inst.verdict} | {inst.key}'
                           + (f' | {inst.msg}' if inst.msg else ''))
        for a in rep.assumptions:
            if a not in assumptions:
                assumptions.append(a)
    level = spec['level']
    cov = {
        'explanation': spec['explanation'] + ' Rules armed in this run - ' + '; '.join(f"{r['rule']}: {r['title']}" for r in rules_out) + '.',
        'evaluations': max(evaluations, 1),
        'distinct_nontrivial': distinct,
        'rule': 'one evaluation per rule instance (a site of the kind the rule is about: call site, '
                'statement, loop, regex alternative, obligation); distinct = distinct (rule, construct key) '
                'pairs with verdict ok/violation/frozen-exception, informational rows excluded',
        'samples': samples[:200],
        'rules': rules_out,
        'not_decided': spec.get('not_decided', ''),
        'files_analysed': sorted(m.relpath for m in ctx.repo.modules.values()),
        'functions_in_model': len(ctx.repo.all_functions()),
        'exhaustive': True,
        'repo_root': str(ctx.repo.root),
    }
    if 'cg' in ctx._cache:
        cov['call_resolution'] = ctx.cg.resolution_stats()
    if level == 'proof':
        cov['obligations'] = obligations
        cov['discharged'] = discharged
        cov['checker_cmd'] = f'bin/vcheck {prop} --tier {tier}'
        cov['trusted_base'] = spec.get('trusted_base', [])
    if sv is not None:
        cov['self_validation'] = sv
    if errors:
        cov['analysis_errors'] = list(errors)
    ev = {
        'property_id': prop, 'tier': tier, 'seed': seed, 'level': level, 'coverage': cov,
        'assumptions': assumptions, 'wall_s': round(wall, 3), 'violations': n_viol,
        'known_findings_matched': n_known,
    }
    (EVIDENCE / f'{prop}.json').write_text(json.dumps(ev, indent=1, default=str) + '\n')


def replay(path: str) -> int:
    data = json.loads(Path(path).read_text())
    prop, rid, key = data['property'], data['rule'], data['key']
    try:
        ctx = Ctx(Repo(None), 'quick')
        rep = ctx.run_rule(rid)
    except AnalysisError as exc:
        print(f'ANALYSIS-ERROR property={prop} {exc}')
        return 2
    for inst in rep.violations():
        if inst.key == key:
            print(f'VIOLATION property={prop} replay={path}')
            print(f'  still present: {inst.where}: {inst.msg}')
            return 1
    print(f'{prop} {rid}: instance no longer violates: {key}')
    return 0


def main(argv=None) -> int:
    ap = argparse.ArgumentParser(prog='vcheck')
    ap.add_argument('property', nargs='?')
    ap.add_argument('--tier', default=os.environ.get('VERIF_TIER', 'quick'), choices=['quick', 'thorough'])
    ap.add_argument('--replay')
    ap.add_argument('--all', action='store_true')
    ap.add_argument('--repo', default=None)
    ap.add_argument('--no-write', action='store_true')
    ap.add_argument('--no-selfcheck', action='store_true')
    args = ap.parse_args(argv)
    if args.replay:
        return replay(args.replay)
    if args.all:
        rc = 0
        for p in sorted(PROPS):
            rc = max(rc, run_property(p, args.tier, args.repo, not args.no_write, not args.no_selfcheck))
        return rc
    if not args.property:
        ap.error('property id required')
    return run_property(args.property, args.tier, args.repo, not args.no_write, not args.no_selfcheck)


if __name__ == '__main__':
    try:
        sys.exit(main())
    except SystemExit:
        raise
    except BaseException:   # noqa
        print('ANALYSIS-ERROR internal error in the driver:\n' + traceback.format_exc())
        sys.exit(2)
