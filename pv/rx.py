"""E5 - regular-language engine over Unicode code points.

Regular expressions found in the analysed source are treated as *data*: their syntax tree is
obtained with CPython's own parser (re._parser.parse), translated to an NFA whose edges carry
sets of code-point intervals, and compared by our own subset/product constructions.  Nothing is
matched against any input at any time.
"""
from __future__ import annotations

import re
import sys
import unicodedata
from typing import Dict, FrozenSet, Iterable, List, Optional, Sequence, Set, Tuple

try:                                    # Python >= 3.11
    import re._parser as sre_parse
    import re._constants as sre_c
except ImportError:                     # pragma: no cover
    import sre_parse                    # type: ignore
    import sre_constants as sre_c       # type: ignore

from .src import AnalysisError

MAXCP = 0x10FFFF
Interval = Tuple[int, int]


# ---------------------------------------------------------------------------------------------
# character sets: sorted tuples of disjoint closed intervals
# ---------------------------------------------------------------------------------------------

class CS:
    __slots__ = ('iv',)

    def __init__(self, iv: Iterable[Interval] = ()):
        self.iv: Tuple[Interval, ...] = _normalise(iv)

    @staticmethod
    def of(*chars: str) -> 'CS':
        return CS((ord(c), ord(c)) for c in chars)

    @staticmethod
    def full() -> 'CS':
        return CS([(0, MAXCP)])

    def __bool__(self):
        return bool(self.iv)

    def __eq__(self, o):
        return isinstance(o, CS) and self.iv == o.iv

    def __hash__(self):
        return hash(self.iv)

    def __or__(self, o: 'CS') -> 'CS':
        return CS(self.iv + o.iv)

    def __invert__(self) -> 'CS':
        out, prev = [], 0
        for a, b in self.iv:
            if a > prev:
                out.append((prev, a - 1))
            prev = b + 1
        if prev <= MAXCP:
            out.append((prev, MAXCP))
        return CS(out)

    def __and__(self, o: 'CS') -> 'CS':
        out = []
        i = j = 0
        A, B = self.iv, o.iv
        while i < len(A) and j < len(B):
            lo, hi = max(A[i][0], B[j][0]), min(A[i][1], B[j][1])
            if lo <= hi:
                out.append((lo, hi))
            if A[i][1] < B[j][1]:
                i += 1
            else:
                j += 1
        return CS(out)

    def __sub__(self, o: 'CS') -> 'CS':
        return self & ~o

    def __contains__(self, ch) -> bool:
        c = ord(ch) if isinstance(ch, str) else ch
        return any(a <= c <= b for a, b in self.iv)

    def issubset(self, o: 'CS') -> bool:
        return not (self - o)

    def size(self) -> int:
        return sum(b - a + 1 for a, b in self.iv)

    def sample(self) -> str:
        """A printable member if there is one, else the smallest."""
        for a, b in self.iv:
            for c in range(a, min(b, a + 300) + 1):
                if 0x21 <= c < 0x7f:
                    return chr(c)
        return chr(self.iv[0][0])

    def chars(self, limit: int = 64) -> List[str]:
        out = []
        for a, b in self.iv:
            for c in range(a, b + 1):
                out.append(chr(c))
                if len(out) >= limit:
                    return out
        return out

    def describe(self) -> str:
        parts = []
        for a, b in self.iv[:12]:
            parts.append(_cp(a) if a == b else f'{_cp(a)}-{_cp(b)}')
        if len(self.iv) > 12:
            parts.append('...')
        return '[' + ' '.join(parts) + ']'

    def __repr__(self):
        return f'CS{self.describe()}'


def _cp(c: int) -> str:
    ch = chr(c)
    if 0x21 <= c < 0x7f:
        return ch
    return f'U+{c:04X}'


def _normalise(iv: Iterable[Interval]) -> Tuple[Interval, ...]:
    ivs = sorted((a, b) for a, b in iv if a <= b)
    out: List[Interval] = []
    for a, b in ivs:
        if out and a <= out[-1][1] + 1:
            out[-1] = (out[-1][0], max(out[-1][1], b))
        else:
            out.append((a, b))
    return tuple(out)


_CAT_CACHE: Dict[str, CS] = {}


def category(name: str) -> CS:
    """Unicode-str semantics of \\d \\s \\w as implemented by CPython's re for str patterns."""
    if name not in _CAT_CACHE:
        if name == 'digit':
            pred = lambda ch: unicodedata.category(ch) == 'Nd'      # noqa: E731  (_sre: Py_UNICODE_ISDECIMAL)
            pred = str.isdecimal
        elif name == 'space':
            pred = str.isspace
        elif name == 'word':
            pred = lambda ch: ch.isalnum() or ch == '_'             # noqa: E731
        else:
            raise AnalysisError(f'regex category {name} is not modelled')
        iv, start = [], None
        for c in range(MAXCP + 1):
            ok = pred(chr(c))
            if ok and start is None:
                start = c
            elif not ok and start is not None:
                iv.append((start, c - 1))
                start = None
        if start is not None:
            iv.append((start, MAXCP))
        _CAT_CACHE[name] = CS(iv)
    return _CAT_CACHE[name]


# ---------------------------------------------------------------------------------------------
# regex syntax tree (from CPython's parser) -> our algebra
# ---------------------------------------------------------------------------------------------

class Rx:
    """kind: 'empty' (no string), 'eps', 'set' (cs), 'cat' (items), 'alt' (items), 'star' (item),
    'end' (end-of-line assertion, zero width), 'lb' (one-character lookbehind: cs, items=(negated,))."""
    __slots__ = ('kind', 'cs', 'items')

    def __init__(self, kind, cs=None, items=()):
        self.kind = kind
        self.cs = cs
        self.items = tuple(items)

    @staticmethod
    def eps():
        return Rx('eps')

    @staticmethod
    def empty():
        return Rx('empty')

    @staticmethod
    def chars(cs: CS):
        return Rx('set', cs=cs) if cs else Rx('empty')

    @staticmethod
    def lit(s: str):
        return Rx.cat([Rx.chars(CS.of(c)) for c in s])

    @staticmethod
    def cat(items):
        items = [i for i in items if i.kind != 'eps']
        if any(i.kind == 'empty' for i in items):
            return Rx('empty')
        if not items:
            return Rx('eps')
        if len(items) == 1:
            return items[0]
        return Rx('cat', items=items)

    @staticmethod
    def alt(items):
        items = [i for i in items if i.kind != 'empty']
        if not items:
            return Rx('empty')
        if len(items) == 1:
            return items[0]
        return Rx('alt', items=items)

    @staticmethod
    def star(item):
        if item.kind in ('eps', 'empty'):
            return Rx('eps')
        return Rx('star', items=[item])

    @staticmethod
    def plus(item):
        return Rx.cat([item, Rx.star(item)])

    @staticmethod
    def opt(item):
        return Rx.alt([Rx.eps(), item])

    @staticmethod
    def repeat(item, lo: int, hi: Optional[int]):
        parts = [item] * lo
        if hi is None:
            parts.append(Rx.star(item))
        else:
            tail = Rx.eps()
            for _ in range(hi - lo):
                tail = Rx.opt(Rx.cat([item, tail]))
            parts.append(tail)
        return Rx.cat(parts)


class ParsedPattern:
    """A regex literal as the source wrote it."""

    def __init__(self, pattern: str, flags: int = 0):
        self.pattern = pattern
        self.flags = flags
        try:
            self.tree = sre_parse.parse(pattern, flags)
        except re.error as exc:
            raise AnalysisError(f'regex does not parse: {exc}: {pattern!r}') from exc
        self.groupdict = dict(self.tree.state.groupdict)
        self.n_groups = self.tree.state.groups - 1
        self.has_end_assertion = False
        self.has_begin_assertion = False
        self.has_lookbehind = False
        self.rx = self._conv_seq(self.tree)

    # top-level alternatives as (group name or None, Rx)
    def alternatives(self) -> List[Tuple[Optional[str], Rx, object]]:
        data = list(self.tree)
        names = {v: k for k, v in self.groupdict.items()}
        if len(data) == 1 and data[0][0] is sre_c.BRANCH:
            branches = data[0][1][1]
        else:
            branches = [self.tree]
        out = []
        for br in branches:
            items = list(br)
            if len(items) == 1 and items[0][0] is sre_c.SUBPATTERN and items[0][1][0] is not None:
                gid = items[0][1][0]
                out.append((names.get(gid), self._conv_seq(items[0][1][3]), items[0][1][3]))
            else:
                out.append((None, self._conv_seq(br), br))
        return out

    def capture_groups_inside(self, sub) -> int:
        n = 0
        for op, av in sub:
            if op is sre_c.SUBPATTERN:
                if av[0] is not None:
                    n += 1
                n += self.capture_groups_inside(av[3])
            elif op is sre_c.BRANCH:
                for b in av[1]:
                    n += self.capture_groups_inside(b)
            elif op in (sre_c.MAX_REPEAT, sre_c.MIN_REPEAT) or getattr(sre_c, 'POSSESSIVE_REPEAT', None) is op:
                n += self.capture_groups_inside(av[2])
        return n

    def _conv_seq(self, sub) -> Rx:
        return Rx.cat([self._conv(op, av) for op, av in sub])

    @staticmethod
    def lazy_repeats(sub) -> int:
        n = 0
        for op, av in sub:
            if op is sre_c.MIN_REPEAT:
                n += 1 + ParsedPattern.lazy_repeats(av[2])
            elif op is sre_c.MAX_REPEAT:
                n += ParsedPattern.lazy_repeats(av[2])
            elif op is sre_c.SUBPATTERN:
                n += ParsedPattern.lazy_repeats(av[3])
            elif op is sre_c.BRANCH:
                n += sum(ParsedPattern.lazy_repeats(b) for b in av[1])
        return n

    def _conv(self, op, av) -> Rx:
        if op is sre_c.LITERAL:
            return self._case(Rx.chars(CS([(av, av)])))
        if op is sre_c.NOT_LITERAL:
            return Rx.chars(~CS([(av, av)]))
        if op is sre_c.ANY:
            if self.flags & re.DOTALL:
                return Rx.chars(CS.full())
            return Rx.chars(~CS.of('\n'))
        if op is sre_c.IN:
            cs, neg = CS(), False
            for o2, a2 in av:
                if o2 is sre_c.NEGATE:
                    neg = True
                elif o2 is sre_c.LITERAL:
                    cs |= CS([(a2, a2)])
                elif o2 is sre_c.RANGE:
                    cs |= CS([a2])
                elif o2 is sre_c.CATEGORY:
                    cs |= self._category(a2)
                else:
                    raise AnalysisError(f'regex set item {o2} is not modelled')
            if self.flags & re.IGNORECASE:
                raise AnalysisError('IGNORECASE sets are not modelled')
            return Rx.chars(~cs if neg else cs)
        if op is sre_c.BRANCH:
            return Rx.alt([self._conv_seq(b) for b in av[1]])
        if op is sre_c.SUBPATTERN:
            gid, add, dele, p = av
            if add or dele:
                raise AnalysisError('inline regex flags are not modelled')
            return self._conv_seq(p)
        if op in (sre_c.MAX_REPEAT, sre_c.MIN_REPEAT):
            lo, hi, p = av
            return Rx.repeat(self._conv_seq(p), lo, None if hi is sre_c.MAXREPEAT else hi)
        if op is sre_c.AT:
            if av in (sre_c.AT_END, sre_c.AT_END_STRING):
                self.has_end_assertion = True
                return Rx('end')
            if av in (sre_c.AT_BEGINNING, sre_c.AT_BEGINNING_STRING):
                self.has_begin_assertion = True
                return Rx.eps()
            raise AnalysisError(f'regex assertion {av} is not modelled')
        if op is sre_c.CATEGORY:
            return Rx.chars(self._category(av))
        if op in (sre_c.ASSERT, sre_c.ASSERT_NOT):
            direction, sub = av
            inner = self._conv_seq(sub)
            if direction == -1 and inner.kind == 'set':
                self.has_lookbehind = True
                return Rx('lb', cs=inner.cs, items=(op is sre_c.ASSERT_NOT,))
            raise AnalysisError('only one-character lookbehind assertions are modelled '
                                f'(pattern {self.pattern!r})')
        raise AnalysisError(f'regex construct {op} is not modelled (pattern {self.pattern!r})')

    def _case(self, r):
        if self.flags & re.IGNORECASE:
            raise AnalysisError('IGNORECASE is not modelled')
        return r

    def _category(self, a) -> CS:
        if self.flags & re.ASCII:
            raise AnalysisError('ASCII-flag categories are not modelled')
        table = {
            sre_c.CATEGORY_DIGIT: ('digit', False), sre_c.CATEGORY_NOT_DIGIT: ('digit', True),
            sre_c.CATEGORY_SPACE: ('space', False), sre_c.CATEGORY_NOT_SPACE: ('space', True),
            sre_c.CATEGORY_WORD: ('word', False), sre_c.CATEGORY_NOT_WORD: ('word', True),
        }
        if a not in table:
            raise AnalysisError(f'regex category {a} is not modelled')
        name, neg = table[a]
        cs = category(name)
        return ~cs if neg else cs


# ---------------------------------------------------------------------------------------------
# NFA / lazy DFA
# ---------------------------------------------------------------------------------------------

class NFA:
    def __init__(self):
        self.n = 0
        self.eps: List[List[int]] = []
        self.tr: List[List[Tuple[CS, int]]] = []
        self.asrt: List[List[Tuple[CS, bool, int]]] = []     # lookbehind edges: (set, negated, dst)
        self.start = 0
        self.accept: Set[int] = set()

    def new(self) -> int:
        self.eps.append([])
        self.tr.append([])
        self.asrt.append([])
        self.n += 1
        return self.n - 1

    @staticmethod
    def of(rx: Rx) -> 'NFA':
        nfa = NFA()
        s = nfa.new()
        f = nfa.new()
        nfa.start = s
        nfa.accept = {f}
        nfa._build(rx, s, f)
        return nfa

    def _build(self, rx: Rx, s: int, f: int):
        k = rx.kind
        if k == 'empty':
            return
        if k in ('eps', 'end'):
            self.eps[s].append(f)
        elif k == 'set':
            self.tr[s].append((rx.cs, f))
        elif k == 'lb':
            self.asrt[s].append((rx.cs, bool(rx.items[0]), f))
        elif k == 'cat':
            cur = s
            for i, it in enumerate(rx.items):
                nxt = f if i == len(rx.items) - 1 else self.new()
                self._build(it, cur, nxt)
                cur = nxt
        elif k == 'alt':
            for it in rx.items:
                a, b = self.new(), self.new()
                self.eps[s].append(a)
                self._build(it, a, b)
                self.eps[b].append(f)
        elif k == 'star':
            a, b = self.new(), self.new()
            self.eps[s].append(a)
            self.eps[s].append(f)
            self._build(rx.items[0], a, b)
            self.eps[b].append(a)
            self.eps[b].append(f)
        else:
            raise AnalysisError(f'rx kind {k}')

    def closure(self, states: Iterable[int], last: Optional[CS] = None) -> FrozenSet[int]:
        """Epsilon closure.  `last` is the (minterm block of the) character consumed just before; it
        decides one-character lookbehind edges.  At the start of a token (last is None) a lookbehind
        would look outside the token: not modelled."""
        seen = set(states)
        stack = list(seen)
        while stack:
            q = stack.pop()
            for r in self.eps[q]:
                if r not in seen:
                    seen.add(r)
                    stack.append(r)
            for cs, neg, r in self.asrt[q]:
                if last is None:
                    raise AnalysisError('lookbehind assertion at the start of a token is not modelled')
                holds = (last.iv[0][0] in cs)
                if holds != neg and r not in seen:
                    seen.add(r)
                    stack.append(r)
        return frozenset(seen)

    def charsets(self) -> List[CS]:
        return [cs for lst in self.tr for cs, _ in lst] + [cs for lst in self.asrt for cs, _, _ in lst]


def minterms(sets: Sequence[CS]) -> List[CS]:
    """Partition of the code-point space induced by the given sets (only blocks meeting some set,
    plus one block for 'everything else' if non-empty)."""
    bounds = {0, MAXCP + 1}
    for cs in sets:
        for a, b in cs.iv:
            bounds.add(a)
            bounds.add(b + 1)
    pts = sorted(bounds)
    blocks: Dict[Tuple[bool, ...], List[Interval]] = {}
    for lo, hi in zip(pts, pts[1:]):
        sig = tuple(lo in cs for cs in sets)
        blocks.setdefault(sig, []).append((lo, hi - 1))
    return [CS(iv) for iv in blocks.values()]


class DFA:
    """Deterministic automaton over a fixed list of minterm blocks (complete: state -1... we use a
    explicit dead state)."""

    def __init__(self, blocks: List[CS]):
        self.blocks = blocks
        self.trans: List[List[int]] = []
        self.accept: List[bool] = []
        self.start = 0

    @staticmethod
    def from_nfa(nfa: NFA, blocks: List[CS], limit: int = 20000) -> 'DFA':
        d = DFA(blocks)
        # precompute for each nfa transition which blocks it covers
        cover: Dict[int, List[Tuple[int, int]]] = {}     # state -> [(block index, dst)]
        for q in range(nfa.n):
            lst = []
            for cs, dst in nfa.tr[q]:
                for bi, blk in enumerate(blocks):
                    lo = blk.iv[0][0]
                    if lo in cs:
                        lst.append((bi, dst))
            cover[q] = lst
        index: Dict[FrozenSet[int], int] = {}
        start = nfa.closure([nfa.start])
        index[start] = 0
        order = [start]
        d.trans.append([0] * len(blocks))
        d.accept.append(bool(start & nfa.accept))
        i = 0
        while i < len(order):
            S = order[i]
            moves: Dict[int, Set[int]] = {}
            for q in S:
                for bi, dst in cover[q]:
                    moves.setdefault(bi, set()).add(dst)
            row = []
            for bi in range(len(blocks)):
                T = nfa.closure(moves.get(bi, ()), blocks[bi]) if bi in moves else frozenset()
                if T not in index:
                    index[T] = len(order)
                    order.append(T)
                    d.trans.append([0] * len(blocks))
                    d.accept.append(bool(T & nfa.accept))
                    if len(order) > limit:
                        raise AnalysisError('DFA construction exceeded its state limit')
                row.append(index[T])
            d.trans[i] = row
            i += 1
        return d

    def n(self) -> int:
        return len(self.trans)

    def coaccessible(self) -> List[bool]:
        n = self.n()
        rev: List[Set[int]] = [set() for _ in range(n)]
        for s in range(n):
            for t in self.trans[s]:
                rev[t].add(s)
        ok = [False] * n
        stack = [s for s in range(n) if self.accept[s]]
        for s in stack:
            ok[s] = True
        while stack:
            s = stack.pop()
            for p in rev[s]:
                if not ok[p]:
                    ok[p] = True
                    stack.append(p)
        return ok


class Lang:
    """A regular language with the operations the rules need.  Immutable; built from Rx."""

    def __init__(self, rx: Rx, name: str = '', shortest: bool = False):
        self.rx = rx
        self.name = name
        self.nfa = NFA.of(rx)
        # shortest=True: the language of *matched texts* of a lazy pattern, i.e. the members that have
        # no proper prefix in the language
        self.shortest = shortest

    # -- constructions -----------------------------------------------------------------------
    @staticmethod
    def from_pattern(pattern: str, flags: int = 0, name: str = '') -> 'Lang':
        return Lang(ParsedPattern(pattern, flags).rx, name or pattern)

    def cat(self, other: 'Lang') -> 'Lang':
        return Lang(Rx.cat([self.rx, other.rx]), f'({self.name})({other.name})')

    def union(self, other: 'Lang') -> 'Lang':
        return Lang(Rx.alt([self.rx, other.rx]), f'({self.name})|({other.name})')

    # -- simple facts ------------------------------------------------------------------------
    def nullable(self) -> bool:
        return bool(self.nfa.closure([self.nfa.start]) & self.nfa.accept)

    def _dfa(self, extra: Sequence[CS] = ()) -> DFA:
        blocks = minterms(self.nfa.charsets() + list(extra))
        return self._dfa_on(blocks)

    def _dfa_on(self, blocks: List[CS]) -> DFA:
        d = DFA.from_nfa(self.nfa, blocks)
        if self.shortest:
            dead = d.n()
            d.trans.append([dead] * len(blocks))
            d.accept.append(False)
            for st in range(dead):
                if d.accept[st]:
                    d.trans[st] = [dead] * len(blocks)
        return d

    def is_empty(self) -> bool:
        d = self._dfa()
        return not d.coaccessible()[d.start]

    def first_set(self) -> CS:
        d = self._dfa()
        co = d.coaccessible()
        cs = CS()
        for bi, t in enumerate(d.trans[d.start]):
            if co[t]:
                cs |= d.blocks[bi]
        return cs

    def alphabet(self) -> CS:
        """Code points that occur in some member string."""
        d = self._dfa()
        co = d.coaccessible()
        reach = _reachable(d)
        cs = CS()
        for s in range(d.n()):
            if not reach[s]:
                continue
            for bi, t in enumerate(d.trans[s]):
                if co[t]:
                    cs |= d.blocks[bi]
        return cs

    def last_set(self) -> CS:
        """Code points that can be the last character of a member string."""
        d = self._dfa()
        reach = _reachable(d)
        cs = CS()
        for s in range(d.n()):
            if not reach[s]:
                continue
            for bi, t in enumerate(d.trans[s]):
                if d.accept[t]:
                    cs |= d.blocks[bi]
        return cs

    def continuation_set(self) -> CS:
        """Code points c such that for some member x, x.c is a prefix of a (longer) member."""
        d = self._dfa()
        co = d.coaccessible()
        reach = _reachable(d)
        cs = CS()
        for s in range(d.n()):
            if reach[s] and d.accept[s]:
                for bi, t in enumerate(d.trans[s]):
                    if co[t]:
                        cs |= d.blocks[bi]
        return cs

    def single_char_members(self) -> CS:
        """Code points c such that the one-character string c is a member."""
        d = self._dfa()
        cs = CS()
        for bi, t in enumerate(d.trans[d.start]):
            if d.accept[t]:
                cs |= d.blocks[bi]
        return cs

    def is_finite_single_char(self) -> Optional[CS]:
        """If every member is exactly one character, the set of those characters."""
        d = self._dfa()
        co = d.coaccessible()
        if d.accept[d.start]:
            return None
        cs = CS()
        for bi, t in enumerate(d.trans[d.start]):
            if co[t]:
                if not d.accept[t]:
                    return None
                if any(co[u] for u in d.trans[t]):
                    return None
                cs |= d.blocks[bi]
        return cs or None

    # -- comparisons -------------------------------------------------------------------------
    def witness_not_subset(self, other: 'Lang') -> Optional[str]:
        """Shortest string in self but not in other (None if self is a subset of other)."""
        return _product_witness(self, other, lambda a, b: a and not b)

    def witness_intersection(self, other: 'Lang') -> Optional[str]:
        return _product_witness(self, other, lambda a, b: a and b)

    def equivalent(self, other: 'Lang') -> Tuple[bool, Optional[str], Optional[str]]:
        """(equal?, shortest string only in self, shortest string only in other)"""
        w1 = self.witness_not_subset(other)
        w2 = other.witness_not_subset(self)
        return (w1 is None and w2 is None), w1, w2

    def prefix_unique(self) -> Optional[str]:
        """None if no member is a proper prefix of another member; else a witness (the longer one)."""
        ext = Lang(Rx.cat([self.rx, Rx.plus(Rx.chars(CS.full()))]))
        return ext.witness_intersection(self)

    def contains(self, s: str) -> bool:
        cur = self.nfa.closure([self.nfa.start])
        for ch in s:
            nxt = set()
            for q in cur:
                for cs, dst in self.nfa.tr[q]:
                    if ch in cs:
                        nxt.add(dst)
            cur = self.nfa.closure(nxt, CS.of(ch))
            if not cur:
                return False
        return bool(cur & self.nfa.accept)


def _reachable(d: DFA) -> List[bool]:
    ok = [False] * d.n()
    ok[d.start] = True
    stack = [d.start]
    while stack:
        s = stack.pop()
        for t in d.trans[s]:
            if not ok[t]:
                ok[t] = True
                stack.append(t)
    return ok


def _product_witness(A: Lang, B: Lang, want) -> Optional[str]:
    from collections import deque
    blocks = minterms(A.nfa.charsets() + B.nfa.charsets())
    da, db = A._dfa_on(blocks), B._dfa_on(blocks)
    start = (da.start, db.start)
    prev: Dict[Tuple[int, int], Optional[Tuple[Tuple[int, int], int]]] = {start: None}
    q = deque([start])
    while q:
        s = q.popleft()
        if want(da.accept[s[0]], db.accept[s[1]]):
            out = []
            cur = s
            while prev[cur] is not None:
                p, bi = prev[cur]
                out.append(blocks[bi].sample())
                cur = p
            return ''.join(reversed(out))
        for bi in range(len(blocks)):
            t = (da.trans[s[0]][bi], db.trans[s[1]][bi])
            if t not in prev:
                prev[t] = (s, bi)
                q.append(t)
    return None
