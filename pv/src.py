"""E0 - source model of the penman package (syntax trees, bindings, classes, constants).

Never imports penman.  A missing anchor raises AnalysisError (driver turns it into exit 2).
"""
from __future__ import annotations

import ast
import os
from pathlib import Path
from typing import Dict, Iterator, List, Optional, Tuple


class AnalysisError(Exception):
    """The checker cannot do its job on this tree (exit 2, never a pass, never a violation)."""


def norm(node: ast.AST) -> str:
    """Normalised source of a node: the key material for findings (never line numbers)."""
    return ast.unparse(node)


class FuncInfo:
    def __init__(self, module: 'Module', qualname: str, node, cls: Optional['ClassInfo'],
                 parent: Optional['FuncInfo']):
        self.module = module
        self.qualname = qualname          # e.g. 'Graph.__ior__', 'rearrange.sort_key'
        self.node = node
        self.cls = cls
        self.parent = parent
        self.nested: Dict[str, 'FuncInfo'] = {}

    @property
    def fq(self) -> str:
        return f'{self.module.name}:{self.qualname}'

    @property
    def name(self) -> str:
        return self.node.name

    @property
    def params(self) -> List[str]:
        a = self.node.args
        names = [x.arg for x in a.posonlyargs + a.args]
        if a.vararg:
            names.append(a.vararg.arg)
        names += [x.arg for x in a.kwonlyargs]
        if a.kwarg:
            names.append(a.kwarg.arg)
        return names

    @property
    def positional(self) -> List[str]:
        a = self.node.args
        return [x.arg for x in a.posonlyargs + a.args]

    def is_method(self) -> bool:
        return self.cls is not None and self.parent is None

    def decorators(self) -> List[str]:
        return [norm(d) for d in self.node.decorator_list]

    def loc(self, node: Optional[ast.AST] = None) -> str:
        n = node if node is not None else self.node
        return f'{self.module.relpath}:{getattr(n, "lineno", 0)} {self.qualname}'

    def __repr__(self):
        return f'<Func {self.fq}>'


class ClassInfo:
    def __init__(self, module: 'Module', name: str, node: ast.ClassDef):
        self.module = module
        self.name = name
        self.node = node
        self.methods: Dict[str, FuncInfo] = {}
        self.base_exprs = [norm(b) for b in node.bases]
        self.bases: List['ClassInfo'] = []     # resolved repo classes
        self.class_attrs: Dict[str, ast.AST] = {}

    @property
    def fq(self) -> str:
        return f'{self.module.name}:{self.name}'

    def mro(self) -> List['ClassInfo']:
        out, seen = [], set()

        def go(c):
            if c.fq in seen:
                return
            seen.add(c.fq)
            out.append(c)
            for b in c.bases:
                go(b)
        go(self)
        return out

    def find_method(self, name: str) -> Optional[FuncInfo]:
        for c in self.mro():
            if name in c.methods:
                return c.methods[name]
        return None

    def is_subclass_of(self, other: 'ClassInfo') -> bool:
        return any(c.fq == other.fq for c in self.mro())

    def __repr__(self):
        return f'<Class {self.fq}>'


class Module:
    def __init__(self, name: str, path: Path, relpath: str):
        self.name = name
        self.path = path
        self.relpath = relpath
        self.source = path.read_text(encoding='utf-8')
        try:
            self.tree = ast.parse(self.source, filename=str(path))
        except SyntaxError as exc:
            raise AnalysisError(f'{relpath} does not parse: {exc}') from exc
        self.imports: Dict[str, str] = {}      # local name -> qualified 'pkg.mod' or 'pkg.mod.attr'
        self.functions: Dict[str, FuncInfo] = {}
        self.classes: Dict[str, ClassInfo] = {}
        self.constants: Dict[str, ast.AST] = {}   # top-level NAME = <expr> (last binding)
        self.all_funcs: List[FuncInfo] = []
        self.inlined_constants: Dict[str, object] = {}
        self._inline_private_constants()
        self._index()

    def _inline_private_constants(self):
        """Module-level `_NAME = <literal>` (str / number / tuple of them / slice, bound once, never rebound with
        `global`) is substituted at its uses inside functions, so that hoisting a literal into a private constant
        does not change what the rules see.  Public names (CONCEPT_ROLE, POP, PENMAN_RE ...) are left alone."""
        counts: Dict[str, int] = {}
        vals: Dict[str, ast.AST] = {}
        for st in self.tree.body:
            tg = None
            if isinstance(st, ast.Assign) and len(st.targets) == 1 and isinstance(st.targets[0], ast.Name):
                tg, v = st.targets[0].id, st.value
            elif isinstance(st, ast.AnnAssign) and isinstance(st.target, ast.Name) and st.value is not None:
                tg, v = st.target.id, st.value
            if tg:
                counts[tg] = counts.get(tg, 0) + 1
                vals[tg] = v
        rebound = {n for x in ast.walk(self.tree) if isinstance(x, ast.Global) for n in x.names}

        def simple(v) -> bool:
            return isinstance(v, (str, int, float, bool, type(None))) or (isinstance(v, tuple) and all(simple(x) for x in v)) \
                or (isinstance(v, slice) and all(simple(x) for x in (v.start, v.stop, v.step)))
        table: Dict[str, object] = {}
        for name, v in vals.items():
            if not name.startswith('_') or name.startswith('__') or counts[name] != 1 or name in rebound:
                continue
            env = dict(table)
            try:
                val = fold(v, env)
            except Exception:      # noqa: not a literal we understand
                continue
            if simple(val):
                table[name] = val
        if not table:
            return
        self.inlined_constants = table

        def lit(val, like):
            if isinstance(val, tuple):
                node = ast.Tuple(elts=[lit(x, like) for x in val], ctx=ast.Load())
            elif isinstance(val, slice):
                node = ast.Slice(lower=lit(val.start, like) if val.start is not None else None,
                                 upper=lit(val.stop, like) if val.stop is not None else None,
                                 step=lit(val.step, like) if val.step is not None else None)
            elif isinstance(val, (int, float)) and not isinstance(val, bool) and val < 0:
                node = ast.UnaryOp(op=ast.USub(), operand=ast.Constant(value=-val))
            else:
                node = ast.Constant(value=val)
            for x in ast.walk(node):
                ast.copy_location(x, like)
            return node

        class R(ast.NodeTransformer):
            def visit_Name(self, n):
                if isinstance(n.ctx, ast.Load) and n.id in table:
                    return lit(table[n.id], n)
                return n

            def visit_Subscript(self, n):
                self.generic_visit(n)
                return n
        for st in self.tree.body:
            if isinstance(st, (ast.FunctionDef, ast.AsyncFunctionDef, ast.ClassDef)):
                # a local of the same name shadows the constant: skip functions that bind it
                bound = {x.id for x in ast.walk(st) if isinstance(x, ast.Name) and isinstance(x.ctx, ast.Store)} | \
                        {a.arg for f in ast.walk(st) if isinstance(f, (ast.FunctionDef, ast.Lambda)) for a in f.args.args}
                if bound & set(table):
                    continue
                R().visit(st)

    def _index(self):
        for st in self.tree.body:
            self._index_stmt(st)

    def _index_stmt(self, st):
        if isinstance(st, ast.Import):
            for a in st.names:
                self.imports[a.asname or a.name.split('.')[0]] = a.name if a.asname else a.name.split('.')[0]
        elif isinstance(st, ast.ImportFrom):
            mod = st.module or ''
            if st.level:
                base = self.name.split('.')
                base = base[:len(base) - st.level]
                mod = '.'.join(base + ([mod] if mod else []))
            for a in st.names:
                self.imports[a.asname or a.name] = f'{mod}.{a.name}'
        elif isinstance(st, (ast.FunctionDef, ast.AsyncFunctionDef)):
            self._add_func(st, st.name, None, None)
        elif isinstance(st, ast.ClassDef):
            ci = ClassInfo(self, st.name, st)
            self.classes[st.name] = ci
            for b in st.body:
                if isinstance(b, (ast.FunctionDef, ast.AsyncFunctionDef)):
                    fi = self._add_func(b, f'{st.name}.{b.name}', ci, None)
                    # property setters share the name: keep both, getter under plain name
                    key = b.name
                    if any(norm(d).endswith('.setter') for d in b.decorator_list):
                        key = b.name + '.setter'
                    ci.methods[key] = fi
                elif isinstance(b, ast.Assign):
                    for t in b.targets:
                        if isinstance(t, ast.Name):
                            ci.class_attrs[t.id] = b.value
                elif isinstance(b, ast.AnnAssign) and isinstance(b.target, ast.Name) and b.value is not None:
                    ci.class_attrs[b.target.id] = b.value
        elif isinstance(st, ast.Assign):
            for t in st.targets:
                if isinstance(t, ast.Name):
                    self.constants[t.id] = st.value
        elif isinstance(st, ast.AnnAssign):
            if isinstance(st.target, ast.Name) and st.value is not None:
                self.constants[st.target.id] = st.value
        elif isinstance(st, (ast.If, ast.Try)):
            # e.g. `if __name__ == '__main__':` - index nested simple statements
            for sub in ast.iter_child_nodes(st):
                if isinstance(sub, ast.stmt):
                    self._index_stmt(sub)

    def _add_func(self, node, qualname, cls, parent) -> FuncInfo:
        fi = FuncInfo(self, qualname, node, cls, parent)
        if any(norm(d).endswith('.setter') for d in node.decorator_list):
            fi.qualname = qualname + '.setter'
        self.functions[fi.qualname] = fi
        self.all_funcs.append(fi)
        for sub in _nested_defs(node):
            nf = self._add_func(sub, f'{fi.qualname}.{sub.name}', cls, fi)
            fi.nested[sub.name] = nf
        return fi


def _nested_defs(fnode) -> Iterator[ast.AST]:
    """Function definitions directly nested in fnode (not inside a deeper def/class)."""
    stack = list(fnode.body)
    while stack:
        n = stack.pop(0)
        if isinstance(n, (ast.FunctionDef, ast.AsyncFunctionDef)):
            yield n
            continue
        if isinstance(n, (ast.ClassDef, ast.Lambda)):
            continue
        for c in ast.iter_child_nodes(n):
            stack.append(c)


def walk_local(fnode) -> Iterator[ast.AST]:
    """Walk the body of a function without descending into nested defs/classes/lambdas."""
    stack = list(reversed(fnode.body))
    while stack:
        n = stack.pop()
        yield n
        if isinstance(n, (ast.FunctionDef, ast.AsyncFunctionDef, ast.ClassDef, ast.Lambda)):
            continue
        for c in reversed(list(ast.iter_child_nodes(n))):
            stack.append(c)


class Repo:
    def __init__(self, root: Optional[str] = None, package: str = 'penman'):
        self.root = Path(root or os.environ.get('VERIF_REPO') or '/repo')
        self.package = package
        pkgdir = self.root / package
        if not pkgdir.is_dir():
            raise AnalysisError(f'package directory {pkgdir} not found')
        self.modules: Dict[str, Module] = {}
        for p in sorted(pkgdir.rglob('*.py')):
            rel = p.relative_to(self.root)
            parts = list(rel.with_suffix('').parts)
            if parts[-1] == '__init__':
                parts = parts[:-1]
            name = '.'.join(parts)
            self.modules[name] = Module(name, p, str(rel))
        self._link_classes()
        self.parents: Dict[int, ast.AST] = {}

    # -- lookups ---------------------------------------------------------------------------
    def module(self, name: str) -> Module:
        if name not in self.modules:
            raise AnalysisError(f'anchor vanished: module {name}')
        return self.modules[name]

    def func(self, module: str, qualname: str) -> FuncInfo:
        m = self.module(module)
        if qualname not in m.functions:
            raise AnalysisError(f'anchor vanished: function {module}:{qualname}')
        return m.functions[qualname]

    def maybe_func(self, module: str, qualname: str) -> Optional[FuncInfo]:
        m = self.modules.get(module)
        return m.functions.get(qualname) if m else None

    def cls(self, module: str, name: str) -> ClassInfo:
        m = self.module(module)
        if name not in m.classes:
            raise AnalysisError(f'anchor vanished: class {module}:{name}')
        return m.classes[name]

    def constant(self, module: str, name: str) -> ast.AST:
        m = self.module(module)
        if name not in m.constants:
            raise AnalysisError(f'anchor vanished: constant {module}.{name}')
        return m.constants[name]

    def all_functions(self) -> List[FuncInfo]:
        out = []
        for m in self.modules.values():
            out.extend(m.all_funcs)
        return out

    def all_classes(self) -> List[ClassInfo]:
        out = []
        for m in self.modules.values():
            out.extend(m.classes.values())
        return out

    # -- name resolution -------------------------------------------------------------------
    def resolve_qualified(self, q: str):
        """'penman.layout.POP' -> ('const', module, name) etc.  Follows re-exports."""
        seen = set()
        while q not in seen:
            seen.add(q)
            if q in self.modules:
                return ('module', self.modules[q], None)
            mod, _, attr = q.rpartition('.')
            if mod in self.modules:
                m = self.modules[mod]
                if attr in m.functions and m.functions[attr].parent is None and m.functions[attr].cls is None:
                    return ('func', m, m.functions[attr])
                if attr in m.classes:
                    return ('class', m, m.classes[attr])
                if attr in m.constants:
                    return ('const', m, attr)
                if attr in m.imports:
                    q = m.imports[attr]
                    continue
                sub = f'{mod}.{attr}'
                if sub in self.modules:
                    return ('module', self.modules[sub], None)
            return ('external', None, q)
        return ('external', None, q)

    def resolve_name(self, module: Module, name: str):
        """Resolve a bare name used at module scope of `module`."""
        if name in module.functions and module.functions[name].cls is None and module.functions[name].parent is None:
            return ('func', module, module.functions[name])
        if name in module.classes:
            return ('class', module, module.classes[name])
        if name in module.imports:
            return self.resolve_qualified(module.imports[name])
        if name in module.constants:
            return ('const', module, name)
        return ('unknown', None, name)

    def _link_classes(self):
        for m in self.modules.values():
            for c in m.classes.values():
                for b in c.node.bases:
                    tgt = None
                    if isinstance(b, ast.Name):
                        tgt = self.resolve_name(m, b.id)
                    elif isinstance(b, ast.Attribute) and isinstance(b.value, ast.Name):
                        r = self.resolve_name(m, b.value.id)
                        if r[0] == 'module':
                            tgt = self.resolve_qualified(f'{r[1].name}.{b.attr}')
                    elif isinstance(b, ast.Subscript) and isinstance(b.value, ast.Name):
                        tgt = self.resolve_name(m, b.value.id)
                    if tgt and tgt[0] == 'class':
                        c.bases.append(tgt[2])

    def subclasses(self, ci: ClassInfo) -> List[ClassInfo]:
        return [c for c in self.all_classes() if c.fq != ci.fq and c.is_subclass_of(ci)]

    # -- parents ---------------------------------------------------------------------------
    def parent_map(self, fnode) -> Dict[int, ast.AST]:
        pm = {}
        for n in ast.walk(fnode):
            for c in ast.iter_child_nodes(n):
                pm[id(c)] = n
        return pm


# ------------------------------------------------------------------------------------------
# Constant folder: evaluates the pure constant expressions penman uses to *build* data.
# ------------------------------------------------------------------------------------------

class Unfoldable(Exception):
    pass


def fold(expr: ast.AST, env: Optional[dict] = None, repo: Optional[Repo] = None,
         module: Optional[Module] = None, depth: int = 0):
    """Evaluate a constant expression.  env maps names to python values.  Raises Unfoldable."""
    env = env if env is not None else {}
    if depth > 20:
        raise Unfoldable('fold depth')

    def f(e, env=env):
        return fold(e, env, repo, module, depth + 1)

    if isinstance(expr, ast.Constant):
        return expr.value
    if isinstance(expr, ast.Name):
        if expr.id in env:
            return env[expr.id]
        if module is not None and repo is not None:
            r = repo.resolve_name(module, expr.id)
            if r[0] == 'const':
                return fold(r[1].constants[r[2]], {}, repo, r[1], depth + 1)
        if expr.id in ('True', 'False', 'None'):
            return {'True': True, 'False': False, 'None': None}[expr.id]
        raise Unfoldable(f'name {expr.id}')
    if isinstance(expr, ast.Attribute):
        if module is not None and repo is not None and isinstance(expr.value, ast.Name):
            r = repo.resolve_name(module, expr.value.id)
            if r[0] == 'module':
                r2 = repo.resolve_qualified(f'{r[1].name}.{expr.attr}')
                if r2[0] == 'const':
                    return fold(r2[1].constants[r2[2]], {}, repo, r2[1], depth + 1)
        raise Unfoldable(f'attribute {norm(expr)}')
    if isinstance(expr, (ast.Tuple, ast.List, ast.Set)):
        vals = []
        for e in expr.elts:
            if isinstance(e, ast.Starred):
                vals.extend(f(e.value))
            else:
                vals.append(f(e))
        return tuple(vals) if isinstance(expr, ast.Tuple) else (list(vals) if isinstance(expr, ast.List) else set(vals))
    if isinstance(expr, ast.Dict):
        d = {}
        for k, v in zip(expr.keys, expr.values):
            if k is None:
                d.update(f(v))
            else:
                d[f(k)] = f(v)
        return d
    if isinstance(expr, ast.JoinedStr):
        out = []
        for v in expr.values:
            if isinstance(v, ast.Constant):
                out.append(v.value)
            elif isinstance(v, ast.FormattedValue):
                val = f(v.value)
                if v.conversion == ord('r'):
                    val = repr(val)
                elif v.conversion == ord('s'):
                    val = str(val)
                spec = f(v.format_spec) if v.format_spec is not None else ''
                out.append(format(val, spec))
            else:
                raise Unfoldable('joinedstr part')
        return ''.join(out)
    if isinstance(expr, ast.BinOp):
        l, r = f(expr.left), f(expr.right)
        if isinstance(expr.op, ast.Add):
            return l + r
        if isinstance(expr.op, ast.Mult):
            return l * r
        if isinstance(expr.op, ast.Mod):
            return l % r
        if isinstance(expr.op, ast.BitOr):
            return l | r
        if isinstance(expr.op, ast.Sub):
            return l - r
        raise Unfoldable('binop')
    if isinstance(expr, ast.UnaryOp):
        v = f(expr.operand)
        if isinstance(expr.op, ast.USub):
            return -v
        if isinstance(expr.op, ast.Not):
            return not v
        raise Unfoldable('unaryop')
    if isinstance(expr, ast.Subscript):
        base = f(expr.value)
        if isinstance(expr.slice, ast.Slice):
            lo = f(expr.slice.lower) if expr.slice.lower else None
            hi = f(expr.slice.upper) if expr.slice.upper else None
            st = f(expr.slice.step) if expr.slice.step else None
            return base[lo:hi:st]
        return base[f(expr.slice)]
    if isinstance(expr, (ast.ListComp, ast.GeneratorExp, ast.SetComp)):
        res = []

        def rec(gi, env2):
            if gi == len(expr.generators):
                res.append(fold(expr.elt, env2, repo, module, depth + 1))
                return
            g = expr.generators[gi]
            for item in fold(g.iter, env2, repo, module, depth + 1):
                env3 = dict(env2)
                _bind(g.target, item, env3)
                if all(fold(c, env3, repo, module, depth + 1) for c in g.ifs):
                    rec(gi + 1, env3)
        rec(0, dict(env))
        return set(res) if isinstance(expr, ast.SetComp) else res
    if isinstance(expr, ast.Call):
        fn = expr.func
        if isinstance(fn, ast.Attribute):
            if fn.attr in ('join', 'format', 'lstrip', 'rstrip', 'strip', 'lower', 'upper', 'split',
                           'startswith', 'endswith', 'keys', 'values', 'items', 'get'):
                recv = f(fn.value)
                args = [f(a) for a in expr.args]
                kwargs = {k.arg: f(k.value) for k in expr.keywords}
                res = getattr(recv, fn.attr)(*args, **kwargs)
                if fn.attr in ('keys', 'values', 'items'):
                    res = list(res)
                return res
        if isinstance(fn, ast.Name) and fn.id in ('list', 'tuple', 'set', 'dict', 'len', 'str', 'sorted',
                                                   'frozenset', 'int', 'bool', 'reversed'):
            args = [f(a) for a in expr.args]
            res = {'list': list, 'tuple': tuple, 'set': set, 'dict': dict, 'len': len, 'str': str,
                   'sorted': sorted, 'frozenset': frozenset, 'int': int, 'bool': bool,
                   'reversed': lambda x: list(reversed(x))}[fn.id](*args)
            return res
        if isinstance(fn, ast.Name) and fn.id == 'slice':
            return slice(*[f(a) for a in expr.args])
        if isinstance(fn, ast.Name) and module is not None and repo is not None and depth < 12:
            # a call of a small module-level helper of the analysed package with constant arguments
            r = repo.resolve_name(module, fn.id)
            if r[0] == 'func':
                args = [f(a) for a in expr.args]
                kwargs = {k.arg: f(k.value) for k in expr.keywords if k.arg}
                res = eval_const_function(repo, r[1], r[2].node, args, kwargs, depth + 1)
                if res[0] == 'value':
                    return res[1]
        raise Unfoldable(f'call {norm(fn)}')
    if isinstance(expr, ast.IfExp):
        return f(expr.body) if f(expr.test) else f(expr.orelse)
    if isinstance(expr, ast.Compare) and len(expr.ops) == 1:
        l, r = f(expr.left), f(expr.comparators[0])
        op = expr.ops[0]
        table = {ast.Eq: lambda: l == r, ast.NotEq: lambda: l != r, ast.In: lambda: l in r,
                 ast.NotIn: lambda: l not in r, ast.Is: lambda: l is r, ast.IsNot: lambda: l is not r,
                 ast.Lt: lambda: l < r, ast.Gt: lambda: l > r, ast.LtE: lambda: l <= r, ast.GtE: lambda: l >= r}
        return table[type(op)]()
    raise Unfoldable(type(expr).__name__)


def _bind(target, value, env):
    if isinstance(target, ast.Name):
        env[target.id] = value
    elif isinstance(target, (ast.Tuple, ast.List)):
        vals = list(value)
        if len(vals) != len(target.elts):
            raise Unfoldable('unpack')
        for t, v in zip(target.elts, vals):
            _bind(t, v, env)
    else:
        raise Unfoldable('bind target')


def try_fold(expr, env=None, repo=None, module=None):
    try:
        return True, fold(expr, env, repo, module)
    except Unfoldable:
        return False, None
    except Exception:      # arithmetic/type errors while folding: not a constant we understand
        return False, None


def stmt_of(pm: Dict[int, ast.AST], node: ast.AST) -> ast.AST:
    """Innermost enclosing statement of node."""
    n = node
    while not isinstance(n, ast.stmt):
        n = pm[id(n)]
    return n


def iter_calls(fnode) -> Iterator[ast.Call]:
    for n in walk_local(fnode):
        if isinstance(n, ast.Call):
            yield n


def dotted(expr: ast.AST) -> Optional[str]:
    """'a.b.c' for Name/Attribute chains, else None."""
    parts = []
    while isinstance(expr, ast.Attribute):
        parts.append(expr.attr)
        expr = expr.value
    if isinstance(expr, ast.Name):
        parts.append(expr.id)
        return '.'.join(reversed(parts))
    return None


def eval_const_function(repo, module, fdef, args: list, kwargs: dict, depth: int = 0):
    """Partial evaluation of a small helper whose inputs are constants: straight-line assignments, += on
    strings/lists, for-loops over constant iterables, if with constant tests, list.append/extend, return.
    Returns ('value', v) or ('call', ast.Call, env) when the function returns a call the folder does not
    evaluate (e.g. re.compile(...)) - the caller interprets that call with the environment."""
    a = fdef.args
    env: dict = {}
    pos = [p.arg for p in a.posonlyargs + a.args]
    for p, v in zip(pos, args):
        env[p] = v
    if a.vararg:
        env[a.vararg.arg] = tuple(args[len(pos):])
    elif len(args) > len(pos):
        raise Unfoldable('too many arguments')
    for k, v in kwargs.items():
        env[k] = v
    names = pos
    for nm, d in zip(names[len(names) - len(a.defaults):], a.defaults):
        if nm not in env:
            env[nm] = fold(d, {}, repo, module)

    class Ret(Exception):
        def __init__(self, node):
            self.node = node

    def run(stmts):
        for st in stmts:
            if isinstance(st, ast.Expr) and isinstance(st.value, ast.Constant):
                continue
            if isinstance(st, ast.Assign):
                val = fold(st.value, env, repo, module)
                for t in st.targets:
                    _bind(t, val, env)
            elif isinstance(st, ast.AnnAssign) and st.value is not None:
                _bind(st.target, fold(st.value, env, repo, module), env)
            elif isinstance(st, ast.AugAssign) and isinstance(st.target, ast.Name) and isinstance(st.op, ast.Add):
                env[st.target.id] = env[st.target.id] + fold(st.value, env, repo, module)
            elif isinstance(st, ast.For):
                for item in fold(st.iter, env, repo, module):
                    _bind(st.target, item, env)
                    run(st.body)
            elif isinstance(st, ast.If):
                run(st.body if fold(st.test, env, repo, module) else st.orelse)
            elif isinstance(st, ast.Expr) and isinstance(st.value, ast.Call) and isinstance(st.value.func, ast.Attribute) \
                    and isinstance(st.value.func.value, ast.Name) and st.value.func.attr in ('append', 'extend'):
                lst = env[st.value.func.value.id]
                v = fold(st.value.args[0], env, repo, module)
                if st.value.func.attr == 'append':
                    lst.append(v)
                else:
                    lst.extend(v)
            elif isinstance(st, ast.Return):
                raise Ret(st)
            elif isinstance(st, ast.Pass):
                continue
            else:
                raise Unfoldable(f'statement {type(st).__name__} in helper {fdef.name}')
    try:
        run(fdef.body)
    except Ret as r:
        v = r.node.value
        try:
            return ('value', fold(v, env, repo, module), env)
        except Unfoldable:
            if isinstance(v, ast.Call):
                return ('call', v, env)
            raise
    raise Unfoldable(f'helper {fdef.name} does not return')
